#!/usr/bin/env python3
"""mkmutant.py <ID> <name> <repo-relative file> <<< JSON [[old, new], ...]
Writes /verif/mutants/<ID>/<name>.diff (unified, -p1, relative to /repo) from string replacements."""
import difflib
import json
import os
import sys

cid, name, rel = sys.argv[1:4]
pairs = json.load(sys.stdin)
src = open(os.path.join("/repo", rel)).read()
new = src
for old, rep in pairs:
    assert new.count(old) == 1, f"pattern must occur exactly once ({new.count(old)}): {old[:60]!r}"
    new = new.replace(old, rep)
diff = "".join(difflib.unified_diff(src.splitlines(True), new.splitlines(True), f"a/{rel}", f"b/{rel}"))
d = os.path.join("/verif/mutants", cid)
os.makedirs(d, exist_ok=True)
path = os.path.join(d, name + ".diff")
mode = "a" if os.environ.get("APPEND") else "w"
open(path, mode).write(diff)
print(path, len(diff.splitlines()), "lines")
