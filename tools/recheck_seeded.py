#!/venv/bin/python
"""recheck_seeded.py [ID-k ...] : re-run the quick tier of every seeded change's property against a scratch copy of the
package with the change applied (no demo, no worktree), at the current /repo HEAD and /verif state, and record
the outcome in seeded/<ID-k>/meta.json["recheck"] and in seeded/RECHECK.json.  Changes whose patch no longer
applies to HEAD (a later repo fix touched the same lines) are reported as such."""
import json
import os
import subprocess
import sys

VERIF = os.path.dirname(os.path.dirname(os.path.abspath(__file__)))
sys.path.insert(0, VERIF)
os.environ.setdefault("PYTHONHASHSEED", "0")
from simkit import selftest  # noqa: E402

names = sys.argv[1:] or sorted(d for d in os.listdir(os.path.join(VERIF, "seeded")) if os.path.isdir(os.path.join(VERIF, "seeded", d)))
head = subprocess.run(["git", "-C", "/repo", "rev-parse", "--short", "HEAD"], capture_output=True, text=True).stdout.strip()
vhead = subprocess.run(["git", "-C", VERIF, "rev-parse", "--short", "HEAD"], capture_output=True, text=True).stdout.strip()
summary = {}
for name in names:
    d = os.path.join(VERIF, "seeded", name)
    diff = os.path.join(d, "patch.diff")
    meta = json.load(open(os.path.join(d, "meta.json")))
    cid = meta["property"]
    ok = subprocess.run(["git", "-C", "/repo", "apply", "--check", diff], capture_output=True).returncode == 0
    if not ok:
        rec = {"repo_head": head, "verif_commit": vhead, "applies": False}
    elif meta.get("status", "").startswith("neutralised"):
        rec = {"repo_head": head, "verif_commit": vhead, "applies": True, "skipped": meta["status"]}
    else:
        res = selftest.try_diff(cid, diff, tier="quick")
        rec = {"repo_head": head, "verif_commit": vhead, "applies": True, "caught": res.get("caught"),
               "replay_reproduces": res.get("replay_reproduces"), "exit": res.get("rc"),
               "first_violation": (res.get("first") or "")[:300], "wall_s": res.get("wall_s")}
    meta["recheck"] = rec
    json.dump(meta, open(os.path.join(d, "meta.json"), "w"), indent=1)
    summary[name] = {k: rec.get(k) for k in ("applies", "caught", "replay_reproduces", "skipped")}
    print(name, summary[name], flush=True)
    json.dump(summary, open(os.path.join(VERIF, "seeded", "RECHECK.json"), "w"), indent=1)
