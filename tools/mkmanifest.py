#!/usr/bin/env python3
"""Regenerates /verif/MANIFEST.json from the tables below (kept in one place so it stays valid)."""
import json
import os
import re

HERE = os.path.dirname(os.path.dirname(os.path.abspath(__file__)))
PY = "/venv/bin/python"

CHECKS = {
    "C65": dict(
        category="exploration",
        text="Seeded search over worker schedules: every native executor backend is driven through histories of submit/map/starmap calls on simulator-owned pools in which each task's completion time is drawn from the run's PRNG, so results are compared with the built-in call/map/starmap under hundreds of thousands of distinct out-of-order completion patterns and injected task failures, worker deaths, unpicklable callables and uneven argument lists. Sampling, not proof: a clean batch is evidence that no explored schedule breaks order or values.",
        note="Trusted: simkit.SimPool's model of the stdlib pools (FIFO dequeue, at most W in flight, stdlib chunking formula, pickle boundary); fidelity is spot-checked by conformance runs on the real stdlib pools. Exception types are not compared. Two recorded findings (one-parameter callables) are excluded by call shape.",
        technique="deterministic simulation: seeded virtual-time worker pools + fault injection, reference = builtin map/starmap",
        design="4/C65",
    ),
    "C31": dict(
        category="exploration",
        text="Seeded search over worker schedules and draw interleavings: the same device seed, call history and configuration (backend x max_workers x entry point) is executed on fresh default.qubit devices under several schedule seeds on simulator-owned pools; thread-pool tasks are real threads descheduled by the simulator at every random draw, so a generator shared between tasks is consumed in a schedule-dependent order if and only if the code shares one. Finite-shot results must be bit-identical across schedules, analytic and derivative results must equal serial execution position by position, and basis-state circuits pin batch order under shots exactly.",
        note="Trusted: SimPool model of the stdlib pools; numpy's default_rng replaced by a factory of Generator subclasses with the identical PCG64 stream. numpy seeds only (no JAX PRNGKey). Parallel-vs-serial equality of shot results is not demanded (the property does not promise it).",
        technique="deterministic simulation: seeded virtual-time worker pools, baton-passed real threads pre-empted at RNG draws, differential replay across schedule seeds",
        design="4/C31",
    ),
    "C66": dict(
        category="exploration",
        text="Seeded search over thread interleavings: 2-4 real threads (plus threads spawned from inside contexts) run generated programs of nested local_decomps contexts with add/fix/observe/raise/decompose statements; the simulator hands the baton between them after every statement and at seeded line events inside decomposition_rule.py and decomposition_graph.py (bounded pre-emption, including inside the registry copy loop and between the two ContextVar.set calls). After every step each thread's view must equal a per-thread stack-of-snapshots model, threads outside all contexts must see the pristine registry, decompose() must give the output it gives alone, and the global registry must be unchanged at the end.",
        note="Trusted: CPython's contextvars and the atomicity of single bytecode-level dict operations; pre-emption is at Python line granularity in two files and is never placed while a recording (queuing) context is open, because the queuing stack is process-global by design and outside this property. Global add_decomps outside a context is not generated.",
        technique="deterministic simulation: baton-passed real threads, seeded statement- and line-level pre-emption (sys.settrace), exception injection inside contexts, reference = per-thread snapshot stack",
        design="4/C66",
    ),
    "C05": dict(
        category="exploration",
        text="Seeded search over cache histories and store behaviours: one cache store (PennyLane's own LRU with a drawn cachesize, or a simulator-owned mapping that is unbounded, LRU with capacity 1-8, or randomly evicting) is shared by a history of qp.execute / QNode calls on batches built from base circuits and near-duplicate mutators (angles shifted by 2pi/4pi, wires relabelled, trainable indices, adjoint/pow/ctrl wrappers, measurement and wire-order changes, exact duplicates). Every result is compared with cache=False on a fresh device, and the store's live collision monitor flags a key that ever receives two different values.",
        note="Trusted: default.qubit's analytic results with cache=False as the oracle; tolerance 1e-9. Capacity is a swarm-style knob; an eviction-induced lookup failure under a *user-supplied* evicting mapping may raise but never return another value. One recorded finding (KeyError with cache=True and a tiny cachesize) is excluded by configuration.",
        technique="deterministic simulation: simulated cache store with seeded eviction faults over execution histories, differential oracle cache=False",
        design="4/C05",
    ),
    "C41": dict(
        category="exploration",
        text="Seeded search over recording programs with exception injection at every crash point: generated quantum functions nest AnnotatedQueue / QuantumTape / stop_recording contexts, create operators, measurements and wrappers over operands from the same or another context, call qp.apply and function transforms, and an exception is injected at a seeded statement boundary (or raised by PennyLane itself half-way through a constructor) and caught at a seeded outer level. The recording flag and active-context identity are compared with a stack-of-lists model after every statement, every closed context with its model list by object identity, and a probe program recorded afterwards in this and in a second thread must contain exactly its own operations (no residue, no leaked lock).",
        note="Trusted: the reference model's reading of the documented queuing rules. No thread interleaving (the property does not quantify over schedules). For the one context in which PennyLane itself rejected a constructor half-way, only stack discipline and the probe are checked.",
        technique="deterministic simulation: exception (crash-point) injection over generated recording programs, reference = stack-of-lists model compared by identity",
        design="4/C41",
    ),
    "C64": dict(
        category="exploration",
        text="Seeded search over storage histories with I/O fault injection: datasets are created, modified, written (w / w- / a, attribute subsets, overwrite), opened (r / a / w / w- / copy), read into each other, closed and re-opened over a simulated file system that the real h5py + HDF5 library run on unchanged; values are generated from every supported attribute family (scalars, unicode strings, None, arrays incl. 0-d and empty, autograd tensors, nested lists/tuples/dicts, operators and operator arithmetic, sparse matrices, nested datasets). After every operation every attribute of every open handle and of the touched file is compared with a reference file-system model. In 15% of histories one ENOSPC/EIO is delivered at the k-th low-level read/write/flush/truncate of an I/O operation; the faulted file is then exempt, everything else stays under the strict oracle.",
        note="Trusted: h5py/HDF5 themselves; the reference model's reading of the documented write/read/open semantics; type relaxations are listed in the evidence assumptions. Fault-injecting histories run in a forked child because the HDF5 C library's global state is unreliable after an injected I/O error (a third-party crash there is counted, not reported). No crash-consistency (torn/lost writes) is claimed or injected. Re-assigning an existing attribute is rejected by h5py in this version; either outcome is accepted.",
        technique="deterministic simulation: simulated file system under the real HDF5 stack, seeded operation histories, ENOSPC/EIO injection at the k-th low-level call, reference = path->{attr: value} model",
        design="4/C64",
    ),
    "C29": dict(
        category="exploration",
        text="The device is run as a probabilistic automaton whose every categorical draw is owned by the simulator: each choice(p=...) (numpy Generator subclass or wrapped jax.random.choice) offers a distribution, and the simulator decides the returned indices under sampling or adversarial policies (always the mode, always the rarest state, alternating). Oracle (i): every offered distribution, pushed through the per-shot value map of some requested measurement, equals the distribution given by an independent reference simulator, and every measurement is fed by offers whose sizes add up to its shots. Oracle (ii): what is returned to the user is the documented per-bin aggregation (samples, counts incl. all_outcomes, mean, population variance, frequencies) of exactly the indices the simulator returned. This replaces the goodness-of-fit test suggested by the property with an exact refinement check: no significance threshold, no false-alarm rate.",
        note="Trusted: the independent numpy reference simulator (validated against analytic execution); PennyLane's single-sample post-processing for the eigenvalue of one basis index (pinned jointly with the offered distribution by oracle i). Circuits touch every wire in order so no device-specific wire layout is baked in. JAX results are float32 (tolerance 5e-6). If an implementation stops drawing through choice(p=...), the evidence shows no_offers and nothing is decided.",
        technique="deterministic simulation: scripted RNG seam (device as probabilistic automaton), adversarial outcome scheduling, refinement against an independent reference simulator",
        design="4/C29",
    ),
    "C21": dict(
        category="exploration",
        text="Dynamic circuits are executed with every random draw owned by the simulator. One-shot mode: each binomial(1, p) of a mid-circuit measurement and each terminal choice(p=...) offers a distribution and the simulator forces the outcome (sampling or adversarial policies: all zeros, all ones, always the rarer outcome, alternating); per shot every offered p must equal the branch enumerator's conditional probability given the forced prefix, every terminal offer must be the conditional distribution of a requested measurement, and the returned value must be the documented function of the forced per-shot records with postselection-invalid shots discarded. Tree-traversal with shots: every offered distribution must be the Born distribution of a reachable node of the reference outcome tree. Analytic deferred / tree-traversal results are compared with the branch average (reference validation, reported separately). No statistical test is used.",
        note="Trusted: the independent branch enumerator (built on the reference simulator validated in C29). One-shot execution is assumed to draw one binomial per measurement per shot in program order. Mode A is input generation against a model, not simulation, and says so in the evidence. fill-shots in one-shot mode and JAX keys are not driven. Four recorded findings about tree-traversal (measurement-value statistics in analytic mode; all shots discarded; impossible subtree) are excluded by mode and exception class.",
        technique="deterministic simulation: scripted RNG seam with forced measurement-outcome histories, refinement against an independent branch enumerator",
        design="4/C21",
    ),
    "C22": dict(
        category="exploration",
        text="Seeded search over allocation histories with exhaustive reset-outcome enumeration and register exhaustion as the injected fault: nested and overlapping allocate/deallocate scopes (zero/any, restored true/false) that honour their promises are resolved against random zeroed / any_state registers whose dirty wires are really dirty (entangled with a data wire), with min_int and allow_resets drawn per run and register sizes drawn to run dry in a third of the runs. A liveness replay of the resolved tape checks that no two live dynamic wires share a concrete wire, none lands on a data wire or outside the registers, and none is used after deallocation; the branch enumerator walks every outcome history of the resets the transform inserted and the outcome-weighted reduced state of the data wires must equal the reference in which every allocation got a fresh |0> wire; the device's own resolution is executed on default.qubit and compared as well. Under exhaustion only a valid resolution or AllocationError is accepted.",
        note="Weakest fit of the eleven (no scheduler nondeterminism; said so in DESIGN.md): the simulator contributes the reset-outcome histories and the exhaustion fault. Trusted: the reference simulator and branch enumerator; the generator's promise-keeping patterns (compute-use-uncompute with a classical-copy ancilla, toggling pattern for dirty ancillas).",
        technique="deterministic simulation: exhaustive enumeration of inserted-reset outcome histories + register-exhaustion fault injection over allocation histories, reference = fresh-wire circuit",
        design="4/C22",
    ),
    "C13": dict(
        category="fault_enumeration",
        text="For every measurement-based decomposition rule found by scanning the rule registry (Hadamard PPM; CNOT / CY / CZ lattice-surgery PPM; measurement-based Adjoint(TemporaryAND); measurement-based QROM), the rule's own queue (real qfunc, real Conditional objects, real measurement-value arithmetic, real allocation) is walked over ALL outcome histories of its measurements -- the outcomes are the faults, enumerated exhaustively -- on random input states and wire labellings. On every branch the target wires must hold T|psi> exactly (pure, unentangled from the work wires) and the work wires must end in a pure state that depends on the history alone.",
        note="Exhaustive over outcome histories per rule and input; inputs and labellings are sampled. PauliMeasure is not executable on any in-repo device, so measurements are applied by the independent reference simulator as projectors (stated as a stub); device-level mid-circuit measurement code is driven by C21 instead. A branch-dependent global phase is allowed by the property and not checked.",
        technique="deterministic simulation: exhaustive enumeration of measurement-outcome histories (fault enumeration) over the real rule queues, reference state-vector simulator",
        design="4/C13",
    ),
    "C74": dict(
        category="exploration",
        text="Random circuits over the MBQC-supported gate set on 1-2 logical wires are converted with the real transforms (graph decomposition to the MBQC gate set, then graph-state preparation + parametric mid-circuit measurements + online byproduct corrections) and executed shot by shot on default.qubit with EVERY mid-circuit measurement outcome of the measurement pattern forced by the simulator (all zeros, all ones, alternating, always the rarer outcome, or sampled histories; 4-40 forced measurements per shot). At the terminal draw the offered distribution, marginalised onto the logical output wires, must equal the original circuit's Born distribution (independent reference simulator) for every forced history, and the returned sample must be the drawn basis state read on the output wires. The Clifford commutation table is enumerated exhaustively over all Pauli frames as a side check.",
        note="Histories are seeded samples plus adversarial extremes, not the full 2^k space. Wire positions in the offered distribution are taken from QuantumScript.map_to_standard_wires(). Offline byproduct correction (get_byproduct_corrections) is driven on forced histories against an independent frame propagation (6 % of runs), not by executing an uncorrected pattern on a device. commute_clifford_op is a pure function: its exhaustive table check is not what the technique contributes and is reported as a side check.",
        technique="deterministic simulation: scripted RNG seam forcing every measurement outcome of the MBQC pattern, reference = original circuit on an independent simulator",
        design="4/C74",
    ),
}

NA = {}
design = open(os.path.join(HERE, "DESIGN.md")).read()
sec = design.split("## 5. Not applicable")[1].split("## 6.")[0]
for m in re.finditer(r"^\| (C\d+) \| (.*?) \|$", sec, re.M):
    NA[m.group(1)] = m.group(2)

LEGEND = {"PF": "pure function of its arguments: no schedule, clock, store, fault or run-time random draw for a simulator to own",
          "DH": "deterministic single-threaded history over a mutable object with no fault in it",
          "ST": "only a statistical tolerance on draws not observable through a seam"}


def na_reason(txt):
    code = txt.split(" ")[0]
    extra = LEGEND.get(code.strip(), "")
    return f"not applicable to deterministic simulation with fault injection: {txt}" + (f" [{code} = {extra}]" if extra else "")


# extensions made after the seeded rounds (DESIGN.md sections 4 "[second round]" and 15.2 / 15.3)
EXTRA = {
    "C65": " Later additions: deadlines (wait/as_completed/result/Executor.map/AsyncResult timeouts) run on the virtual clock and blocking queue reads drive the simulator; callables are also handed over as short-lived objects (partial / closure); argument iterables are lists, tuples or generators; equal-but-distinguishable arguments (0, 0.0, -0.0, False, ...) are compared type- and sign-strictly.",
    "C31": " Later additions: seeds as int, list, falsy values (0) or one shared numpy SeedSequence object; batches with dynamic circuits (mid-circuit measurement, postselecting projector) under one-shot / tree-traversal; deadlines on the virtual clock.",
    "C66": " Later additions: duplicate adds, graph constructions rejected half-way, faults that are BaseException but not Exception, local_decomps used as a decorator (re-entered; one decorator object shared by all threads), a directed leave-then-re-enter pattern.",
    "C05": " Later additions: array-valued parameters (also > 1000 entries, sparse, large Hermitian), parameters held by torch / jax / autograd with and without backprop, observable-coefficient and control-order near-duplicates, size-one broadcasts, tapes derived with copy / qp.map_wires from fingerprinted tape objects, finite-shot siblings whose shot count continues the trainable indices, parameter sweeps through one reused buffer.",
    "C41": " Later additions: stop_recording as a decorator on a re-entrant helper, library templates using it, function forms of wrappers (prod / adjoint / ctrl of a function), make_qscript inside a context, apply(context=...), bodies conditioned on a mid-circuit measurement.",
    "C64": " Later additions: workload-aware fault placement (resolved by a fault-free dry run), in-place edits of list / dict attributes, containers compared by index and by iteration, molecules, nested datasets stored again and edited from the inside, dict keys with percent escapes.",
    "C29": " Later additions: (shots, copies) specifications and non-adjacent repeats, a nine-wire case, one raw register of decided shots answered through process_counts / process_samples for Z-basis requests, and -- for the JAX generator only, where a bypassed choice seam would otherwise pass silently -- observation of the device's real draws (per-bin goodness of fit, first half vs second half; reported separately).",
    "C21": " Later additions: tree-traversal with shots derives the per-history shot counts from the decided draws and checks every measurement-value statistic and every expval / var / probs of an ordinary observable as the function of those draws; new mode for deferred measurements with shots (postselection thinning chain decided by the simulator).",
    "C22": " Later additions: any-state scratch scopes left dirty, restored->any->zero chains, an idle measured static wire on the device path, histories built through qp.allocate / qp.deallocate and the register's context-manager protocol, plain-string states, the same configured registers used for two applications.",
    "C13": " Later additions: work wires requested in the zero state must end in ONE state for every history and input; wires a rule requests in \"any\" state are handed over in a random state; random QROM tables against an independently written ideal action.",
    "C74": " Later additions: two-step route through the stand-alone diagonalize_mcms transform, measurement angles at multiples of pi/2, and the offline tracker (get_byproduct_corrections) against an independent frame propagation with byproduct formulas written out from the paper, over forced histories with wires first used in any order.",
}


def main():
    props = [json.loads(l)["id"] for l in open(os.path.join(HERE, "properties.jsonl"))]
    checks = []
    for cid, c in CHECKS.items():
        checks.append({
            "property_id": cid,
            "quick_cmd": f"{PY} /verif/run.py {cid} --tier quick",
            "thorough_cmd": f"{PY} /verif/run.py {cid} --tier thorough",
            "evidence_file": f"/verif/evidence/{cid}.json",
            "replay_cmd_template": f"{PY} /verif/run.py {cid} --replay {{path}}",
            "engine": "simkit",
            "level_claimed": {"category": c["category"], "text": c["text"] + EXTRA.get(cid, ""), "design_ref": c["design"]},
            "level_note": c["note"],
            "technique": c["technique"],
        })
    na = []
    for pid in props:
        if pid in CHECKS:
            continue
        if pid in NA:
            na.append({"property_id": pid, "reason": na_reason(NA[pid])})
        else:
            na.append({"property_id": pid, "reason": PENDING.get(pid, "check not built yet (designed in DESIGN.md section 4); not claimed")})
    man = {
        "version": 1,
        "setup_cmd": f"{PY} /verif/run.py --selfcheck",
        "hooks": {
            "guard": "PENNYLANE_VERIF",
            "enable": "no source hooks: every seam is an existing argument, class attribute or module attribute (DESIGN.md section 3); checks import /repo's working tree through the editable install",
            "baseline_off_cmd": "cd /repo && /venv/bin/python -m pytest -ra -q -p no:cacheprovider --timeout=900 --continue-on-collection-errors",
            "source_commits": [],
            "add_only": True,
        },
        "engines": [{"name": "simkit", "path": "/verif/simkit", "serves_properties": sorted(CHECKS),
                     "kind_free_text": "deterministic simulation kernel written for this task: seeded sub-streams, discrete-event virtual time, simulated worker pools, baton-passing real threads, scripted numpy Generator, simulated cache and file system, fault plans, shrinking, replay files"}],
        "checks": checks,
        "not_applicable": na,
        "notes": "Technique family: deterministic simulation with fault injection. Properties that are pure functions of their input are answered not applicable (DESIGN.md sections 1 and 5). Genuine defects found: see known_findings.json and DESIGN.md.",
    }
    with open(os.path.join(HERE, "MANIFEST.json"), "w") as f:
        json.dump(man, f, indent=1)
    print(f"{len(checks)} checks, {len(na)} not applicable")


PENDING = {}

if __name__ == "__main__":
    main()
