#!/venv/bin/python
"""try_seeded.py <ID> <diff> [--tier quick|thorough] [--runs N]
Runs one check against a scratch copy of the package with <diff> applied (never touches /repo)."""
import json
import os
import sys

sys.path.insert(0, os.path.dirname(os.path.dirname(os.path.abspath(__file__))))
os.environ.setdefault("PYTHONHASHSEED", "0")
from simkit import selftest  # noqa: E402

cid, diff = sys.argv[1], os.path.abspath(sys.argv[2])
tier = sys.argv[sys.argv.index("--tier") + 1] if "--tier" in sys.argv else "quick"
runs = int(sys.argv[sys.argv.index("--runs") + 1]) if "--runs" in sys.argv else None
print(json.dumps(selftest.try_diff(cid, diff, runs=runs, tier=tier), indent=1))
