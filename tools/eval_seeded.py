#!/venv/bin/python
"""eval_seeded.py <ID> <k> <diff> <demo.py> [notes.md] [--suite] [--tier quick|thorough]

Confirms an independently written breaking change in a scratch git worktree of /repo (outside /repo and
/verif), runs the property's check against it, and files it under /verif/seeded/<ID>-<k>/.

 1. scratch worktree of /repo HEAD: demo must exit 0 on the clean tree and non-zero with the diff applied;
 2. (--suite) the pinned test suite is run with the diff applied and must still report 257 passed;
 3. the check's quick tier is run against a scratch copy of the package with the diff applied;
 4. patch.diff, demo.py, notes.md and meta.json are written; the worktree is removed.
"""
import json
import os
import re
import shutil
import subprocess
import sys
import time

VERIF = os.path.dirname(os.path.dirname(os.path.abspath(__file__)))
sys.path.insert(0, VERIF)
os.environ.setdefault("PYTHONHASHSEED", "0")
from simkit import selftest  # noqa: E402

PY = "/venv/bin/python"


def sh(cmd, **kw):
    return subprocess.run(cmd, capture_output=True, text=True, **kw)


def main():
    args = [a for a in sys.argv[1:] if not a.startswith("--")]
    cid, k, diff, demo = args[0], args[1], os.path.abspath(args[2]), os.path.abspath(args[3])
    notes = os.path.abspath(args[4]) if len(args) > 4 else None
    tier = sys.argv[sys.argv.index("--tier") + 1] if "--tier" in sys.argv else "quick"
    wt = f"/tmp/verify_{cid}_{k}"
    meta = {"property": cid, "change": os.path.basename(diff), "evaluated_at_repo_head":
            sh(["git", "-C", "/repo", "rev-parse", "--short", "HEAD"]).stdout.strip()}
    sh(["git", "-C", "/repo", "worktree", "remove", "--force", wt])
    r = sh(["git", "-C", "/repo", "worktree", "add", "-q", "--detach", wt, "HEAD"])
    if r.returncode:
        print("worktree failed", r.stderr)
        return 2
    try:
        env = dict(os.environ, PYTHONPATH=wt)
        env.pop("PYTHONHASHSEED", None)
        t0 = time.time()
        clean = sh([PY, demo], env=env, cwd=wt, timeout=1800)
        ap = sh(["git", "-C", wt, "apply", diff])
        if ap.returncode:
            meta["confirmed"] = False
            meta["why"] = "diff does not apply: " + ap.stderr[-300:]
            print(json.dumps(meta, indent=1))
            return 1
        changed = sh([PY, demo], env=env, cwd=wt, timeout=1800)
        meta["demo"] = {"clean_exit": clean.returncode, "changed_exit": changed.returncode,
                        "changed_output_tail": (changed.stdout + changed.stderr)[-400:],
                        "wall_s": round(time.time() - t0, 1)}
        meta["confirmed"] = clean.returncode == 0 and changed.returncode != 0
        meta["files_touched"] = re.findall(r"^\+\+\+ b/(\S+)", open(diff).read(), re.M)
        if "--suite" in sys.argv and meta["confirmed"]:
            t0 = time.time()
            st = sh([PY, "-m", "pytest", "-q", "-p", "no:cacheprovider", "--timeout=900",
                     "--continue-on-collection-errors"], env=env, cwd=wt, timeout=3600)
            tail = (st.stdout.strip().splitlines() or [""])[-1]
            m = re.search(r"(\d+) passed", tail)
            meta["pinned_suite_with_change"] = {"summary": tail[-200:], "passed": int(m.group(1)) if m else None,
                                                "wall_s": round(time.time() - t0, 1)}
    finally:
        sh(["git", "-C", "/repo", "worktree", "remove", "--force", wt])
    if meta["confirmed"]:
        res = selftest.try_diff(cid, diff, tier=tier)
        meta["check"] = {"command": f"{PY} /verif/run.py {cid} --tier {tier} (against a scratch copy of the package with the change applied)",
                         "caught": res.get("caught"), "replay_reproduces": res.get("replay_reproduces"),
                         "exit": res.get("rc"), "first_violation": res.get("first"), "wall_s": res.get("wall_s"),
                         "stderr_tail": res.get("stderr_tail")}
    out = os.path.join(VERIF, "seeded", f"{cid}-{k}")
    os.makedirs(out, exist_ok=True)
    prev_path = os.path.join(out, "meta.json")
    if os.path.exists(prev_path):
        prev = json.load(open(prev_path))
        earlier = prev.get("earlier_attempts", [])
        if prev.get("check"):
            earlier.append({"verif_commit": prev.get("verif_commit"), "caught": prev["check"].get("caught"),
                            "replay_reproduces": prev["check"].get("replay_reproduces")})
        meta["earlier_attempts"] = earlier
        for keep in ("pinned_suite_with_change", "strengthening"):
            if keep in prev and keep not in meta:
                meta[keep] = prev[keep]
    meta["verif_commit"] = sh(["git", "-C", VERIF, "rev-parse", "--short", "HEAD"]).stdout.strip()
    def _cp(src, dst):
        if os.path.abspath(src) != os.path.abspath(dst):
            shutil.copy(src, dst)

    _cp(diff, os.path.join(out, "patch.diff"))
    _cp(demo, os.path.join(out, "demo.py"))
    if notes and os.path.exists(notes):
        _cp(notes, os.path.join(out, "notes.md"))
        meta["needs_to_manifest"] = open(notes).read()[:1500]
    json.dump(meta, open(os.path.join(out, "meta.json"), "w"), indent=1)
    print(json.dumps({k2: v for k2, v in meta.items() if k2 != "needs_to_manifest"}, indent=1)[:1800])
    return 0


if __name__ == "__main__":
    sys.exit(main())
