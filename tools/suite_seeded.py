#!/venv/bin/python
"""suite_seeded.py <ID-k> ... : run the pinned test suite in a scratch worktree with seeded/<ID-k>/patch.diff applied
and record the number of passed tests in meta.json (the clean tree gives 257 in /repo; 256 in a worktree because one
example depends on the checkout path)."""
import json, os, re, subprocess, sys
VERIF = os.path.dirname(os.path.dirname(os.path.abspath(__file__)))
for name in sys.argv[1:]:
    d = os.path.join(VERIF, "seeded", name)
    wt = f"/tmp/suite_{name}"
    subprocess.run(["git", "-C", "/repo", "worktree", "remove", "--force", wt], capture_output=True)
    subprocess.run(["git", "-C", "/repo", "worktree", "add", "-q", "--detach", wt, "HEAD"], check=True)
    try:
        if name != "CLEAN":
            subprocess.run(["git", "-C", wt, "apply", os.path.join(d, "patch.diff")], check=True)
        env = dict(os.environ, PYTHONPATH=wt)
        r = subprocess.run(["/venv/bin/python", "-m", "pytest", "-q", "-p", "no:cacheprovider", "--timeout=900",
                            "--continue-on-collection-errors"], cwd=wt, env=env, capture_output=True, text=True)
        tail = (r.stdout.strip().splitlines() or [""])[-1]
        m = re.search(r"(\d+) passed", tail)
        res = {"summary": tail[-160:], "passed": int(m.group(1)) if m else None}
        print(name, res, flush=True)
        if name != "CLEAN":
            meta = json.load(open(os.path.join(d, "meta.json")))
            meta["pinned_suite_with_change"] = res
            json.dump(meta, open(os.path.join(d, "meta.json"), "w"), indent=1)
    finally:
        subprocess.run(["git", "-C", "/repo", "worktree", "remove", "--force", wt], capture_output=True)
