#!/bin/bash
# long self-tests from a snapshot: sensitivity, re-evaluation of the first-round seeded changes, determinism
while pgrep -f suite_seeded.py > /dev/null; do sleep 30; done
/venv/bin/python run.py selftest sensitivity > sens.log 2>&1
for d in C05-1 C13-1 C13-2 C21-1 C21-2 C22-1 C22-2 C29-1 C29-2 C31-1 C31-2 C41-1 C41-2 C64-1 C64-2 C65-1 C65-2 C66-1 C66-2 C74-1 C74-2; do
  c=${d%-*}; k=${d#*-}; n=seeded/$d/notes.md; [ -f $n ] || n=""
  timeout 3000 /venv/bin/python tools/eval_seeded.py $c $k seeded/$d/patch.diff seeded/$d/demo.py $n > evalr1_$d.txt 2>&1
  echo "$d $(jq -c '[.confirmed, .check.caught, .check.replay_reproduces, .check.exit]' seeded/$d/meta.json)" >> evalr1.log
done
/venv/bin/python run.py selftest determinism --n 150 > det.log 2>&1
