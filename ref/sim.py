"""Independent reference simulator (numpy only, written from the textbook/documented definitions).

Conventions: wire 0 is the most significant bit of a basis index (first-wire-most-significant), the
state of n wires is a complex vector of length 2**n.  Nothing here imports PennyLane.
"""
from __future__ import annotations

import cmath
import math

import numpy as np

I2 = np.eye(2, dtype=complex)
X = np.array([[0, 1], [1, 0]], dtype=complex)
Y = np.array([[0, -1j], [1j, 0]], dtype=complex)
Z = np.array([[1, 0], [0, -1]], dtype=complex)
H = np.array([[1, 1], [1, -1]], dtype=complex) / math.sqrt(2)
PAULI = {"I": I2, "X": X, "Y": Y, "Z": Z}


def _rot(axis, t):
    return math.cos(t / 2) * I2 - 1j * math.sin(t / 2) * axis


def _kron(*ms):
    out = np.array([[1.0 + 0j]])
    for m in ms:
        out = np.kron(out, m)
    return out


def _controlled(u, n_ctrl=1, values=None):
    """Matrix with controls first (most significant), `u` applied when the controls equal `values`."""
    values = [1] * n_ctrl if values is None else list(values)
    d = u.shape[0]
    dim = (2**n_ctrl) * d
    m = np.eye(dim, dtype=complex)
    idx = 0
    for v in values:
        idx = (idx << 1) | int(bool(v))
    m[idx * d:(idx + 1) * d, idx * d:(idx + 1) * d] = u
    return m


def gate_matrix(name, params=()):
    p = list(params)
    if name in ("PauliX", "X"):
        return X
    if name in ("PauliY", "Y"):
        return Y
    if name in ("PauliZ", "Z"):
        return Z
    if name in ("Hadamard", "H"):
        return H
    if name == "Identity":
        return I2
    if name == "S":
        return np.diag([1, 1j]).astype(complex)
    if name == "T":
        return np.diag([1, cmath.exp(1j * math.pi / 4)]).astype(complex)
    if name == "SX":
        return 0.5 * np.array([[1 + 1j, 1 - 1j], [1 - 1j, 1 + 1j]], dtype=complex)
    if name == "RX":
        return _rot(X, p[0])
    if name == "RY":
        return _rot(Y, p[0])
    if name == "RZ":
        return np.diag([cmath.exp(-0.5j * p[0]), cmath.exp(0.5j * p[0])]).astype(complex)
    if name in ("PhaseShift", "U1"):
        return np.diag([1, cmath.exp(1j * p[0])]).astype(complex)
    if name == "U2":
        phi, delta = p
        return np.array([[1, -cmath.exp(1j * delta)],
                         [cmath.exp(1j * phi), cmath.exp(1j * (phi + delta))]], dtype=complex) / math.sqrt(2)
    if name == "U3":
        th, phi, delta = p
        c, s = math.cos(th / 2), math.sin(th / 2)
        return np.array([[c, -cmath.exp(1j * delta) * s],
                         [cmath.exp(1j * phi) * s, cmath.exp(1j * (phi + delta)) * c]], dtype=complex)
    if name == "Rot":
        phi, th, om = p
        return gate_matrix("RZ", [om]) @ gate_matrix("RY", [th]) @ gate_matrix("RZ", [phi])
    if name == "CNOT":
        return _controlled(X)
    if name == "CY":
        return _controlled(Y)
    if name == "CZ":
        return _controlled(Z)
    if name == "CH":
        return _controlled(H)
    if name == "SWAP":
        return np.array([[1, 0, 0, 0], [0, 0, 1, 0], [0, 1, 0, 0], [0, 0, 0, 1]], dtype=complex)
    if name in ("CRX", "CRY", "CRZ"):
        return _controlled(gate_matrix(name[1:], p))
    if name == "CRot":
        return _controlled(gate_matrix("Rot", p))
    if name == "ControlledPhaseShift":
        return _controlled(gate_matrix("PhaseShift", p))
    if name in ("IsingXX", "IsingYY", "IsingZZ"):
        a = {"X": X, "Y": Y, "Z": Z}[name[-1]]
        aa = np.kron(a, a)
        return math.cos(p[0] / 2) * np.eye(4, dtype=complex) - 1j * math.sin(p[0] / 2) * aa
    if name == "Toffoli":
        return _controlled(X, 2)
    if name == "CCZ":
        return _controlled(Z, 2)
    if name == "CSWAP":
        return _controlled(gate_matrix("SWAP"))
    if name == "GlobalPhase":
        return np.array([[cmath.exp(-1j * p[0])]], dtype=complex)
    raise ValueError(f"reference simulator: unknown gate {name}")


def op_matrix_and_wires(spec):
    """(matrix, wires) of an op spec: [name, wires, params] | [adjoint, spec] | [pow, spec, z] |
    [ctrl, spec, controls, values]."""
    head = spec[0]
    if head == "adjoint":
        m, w = op_matrix_and_wires(spec[1])
        return m.conj().T, w
    if head == "pow":
        m, w = op_matrix_and_wires(spec[1])
        z = spec[2]
        if float(z).is_integer():
            return np.linalg.matrix_power(m if z >= 0 else m.conj().T, abs(int(z))), w
        ev, vec = np.linalg.eig(m)
        return vec @ np.diag(np.exp(1j * np.angle(ev) * z)) @ np.linalg.inv(vec), w
    if head == "ctrl":
        m, w = op_matrix_and_wires(spec[1])
        ctrl = list(spec[2])
        vals = spec[3] if len(spec) > 3 else None
        return _controlled(m, len(ctrl), vals), ctrl + list(w)
    name, wires, params = spec
    return gate_matrix(name, params), list(wires)


def apply_matrix(state, m, wires, n):
    """Apply the 2**k x 2**k matrix `m` on `wires` (in that order) of an n-wire state vector."""
    if m.shape == (1, 1):
        return state * m[0, 0]
    k = len(wires)
    psi = state.reshape([2] * n)
    psi = np.moveaxis(psi, wires, range(k))
    shp = psi.shape
    psi = (m @ psi.reshape(2**k, -1)).reshape(shp)
    psi = np.moveaxis(psi, range(k), wires)
    return psi.reshape(-1)


def zero_state(n):
    s = np.zeros(2**n, dtype=complex)
    s[0] = 1
    return s


def run(ops, n, state=None):
    s = zero_state(n) if state is None else np.array(state, dtype=complex)
    for spec in ops:
        m, w = op_matrix_and_wires(spec)
        s = apply_matrix(s, m, w, n)
    return s


def probs(state, wires, n):
    """Marginal Born distribution over `wires` (in the given order), first listed wire most significant."""
    p = (np.abs(state) ** 2).reshape([2] * n)
    others = tuple(i for i in range(n) if i not in wires)
    p = p.sum(axis=others) if others else p
    # remaining axes are in increasing wire order; reorder to the requested order
    kept = [i for i in range(n) if i in wires]
    perm = [kept.index(w) for w in wires]
    return np.transpose(p, perm).reshape(-1)


def hermitian_matrix(seed, k):
    g = np.random.Generator(np.random.PCG64(seed))
    a = g.normal(size=(2**k, 2**k)) + 1j * g.normal(size=(2**k, 2**k))
    return (a + a.conj().T) / 2


def named_matrix(name):
    """Two-qubit Hermitian involutions (M @ M = I), given as dense matrices."""
    if name == "SWAP":
        return gate_matrix("SWAP")
    if name == "CNOT":
        return gate_matrix("CNOT")
    if name == "XX":
        return np.kron(X, X)
    if name == "XZ":
        return np.kron(X, Z)
    if name == "-ZZ":
        return -np.kron(Z, Z)
    if name.startswith("RND"):
        g = np.random.Generator(np.random.PCG64(1000 + int(name[3:])))
        a = g.normal(size=(4, 4)) + 1j * g.normal(size=(4, 4))
        q, _ = np.linalg.qr(a)
        d = np.diag([1.0, -1.0, 1.0, -1.0] if int(name[3:]) % 2 else [1.0, 1.0, 1.0, -1.0])
        m = q @ d @ q.conj().T
        return (m + m.conj().T) / 2
    raise ValueError(name)


def obs_matrix_and_wires(spec):
    kind = spec[0]
    if kind == "SP":
        return spec[1] * _kron(*[PAULI[c] for c in spec[2]]), list(spec[3])
    if kind == "HM":
        return named_matrix(spec[1]), list(spec[2])
    if kind == "P":
        return _kron(*[PAULI[c] for c in spec[1]]), list(spec[2])
    if kind == "H":
        return hermitian_matrix(spec[1], len(spec[2])), list(spec[2])
    if kind == "Proj":
        idx = 0
        for b in spec[1]:
            idx = (idx << 1) | int(b)
        m = np.zeros((2 ** len(spec[1]),) * 2, dtype=complex)
        m[idx, idx] = 1
        return m, list(spec[2])
    if kind == "L":
        wires = sorted({w for _, _, ws in spec[1] for w in ws})
        tot = np.zeros((2 ** len(wires),) * 2, dtype=complex)
        for c, word, ws in spec[1]:
            tot = tot + c * expand(_kron(*[PAULI[ch] for ch in word]), ws, wires)
        return tot, wires
    raise ValueError(kind)


def expand(m, wires, all_wires):
    """Embed a matrix acting on `wires` into the space of `all_wires` (identity elsewhere)."""
    n = len(all_wires)
    pos = [all_wires.index(w) for w in wires]
    full = np.eye(2**n, dtype=complex)
    out = np.zeros_like(full)
    for col in range(2**n):
        out[:, col] = apply_matrix(full[:, col], m, pos, n)
    return out


def eig_distribution(state, obs_spec, n, decimals=9):
    """{eigenvalue: probability} of measuring the observable in `state` (degenerate values merged)."""
    m, wires = obs_matrix_and_wires(obs_spec)
    ev, vec = np.linalg.eigh(m)
    k = len(wires)
    psi = np.moveaxis(state.reshape([2] * n), wires, range(k)).reshape(2**k, -1)
    amp = vec.conj().T @ psi  # (eigvec index, rest)
    pr = (np.abs(amp) ** 2).sum(axis=1)
    out: dict = {}
    for e, q in zip(ev, pr):
        key = round(float(e), decimals) + 0.0
        out[key] = out.get(key, 0.0) + float(q)
    return out


def expval(state, obs_spec, n):
    m, wires = obs_matrix_and_wires(obs_spec)
    return float(np.real(np.vdot(state, apply_matrix(state, m, wires, n))))
