"""Branch enumerator for dynamic circuits (mid-circuit measurements, reset, postselection, classically
controlled gates, measurement-value arithmetic).  Independent of PennyLane; built on ref.sim.

dynamic op specs (in addition to ref.sim gate specs):
  ["measure", wire, {"reset": bool, "postselect": None|0|1}]      -- the k-th such op is measurement k
  ["cond", expr, gate_spec]                                       -- gate applied iff expr(history) is truthy
expr: ["m", k] | ["not", e] | ["and", a, b] | ["or", a, b] | ["add", a, b] | ["sub", a, b] |
      ["mul", e, c] | ["eq", e, c] | ["gt", e, c] | ["lt", e, c]
"""
from __future__ import annotations

import numpy as np

from . import sim


def eval_expr(e, h):
    k = e[0]
    if k == "m":
        return int(h[e[1]])
    if k == "not":
        return int(not eval_expr(e[1], h))
    if k == "and":
        return int(bool(eval_expr(e[1], h)) and bool(eval_expr(e[2], h)))
    if k == "or":
        return int(bool(eval_expr(e[1], h)) or bool(eval_expr(e[2], h)))
    if k == "add":
        return eval_expr(e[1], h) + eval_expr(e[2], h)
    if k == "sub":
        return eval_expr(e[1], h) - eval_expr(e[2], h)
    if k == "mul":
        return eval_expr(e[1], h) * e[2]
    if k == "eq":
        return int(eval_expr(e[1], h) == e[2])
    if k == "gt":
        return int(eval_expr(e[1], h) > e[2])
    if k == "lt":
        return int(eval_expr(e[1], h) < e[2])
    raise ValueError(k)


def expr_mcms(e):
    if e[0] == "m":
        return {e[1]}
    out = set()
    for x in e[1:]:
        if isinstance(x, list):
            out |= expr_mcms(x)
    return out


class Branch:
    __slots__ = ("h", "prob", "state", "valid")

    def __init__(self, h, prob, state, valid):
        self.h, self.prob, self.state, self.valid = h, prob, state, valid


class Tree:
    """Full outcome tree of a dynamic circuit.

    nodes[prefix] = (pre-measurement state, p1, wire) for the measurement that follows `prefix`;
    leaves        = list of Branch (one per reachable full history).
    """

    def __init__(self, ops, n):
        self.ops, self.n = ops, n
        self.nodes: dict = {}
        self.leaves: list = []
        self.n_mcm = sum(1 for o in ops if o[0] == "measure")
        self._walk(0, sim.zero_state(n), (), 1.0, True)

    def _walk(self, pos, state, h, prob, valid):
        ops, n = self.ops, self.n
        while pos < len(ops):
            op = ops[pos]
            if op[0] == "measure":
                wire, opt = op[1], op[2]
                psi = state.reshape([2] * n)
                idx1 = [slice(None)] * n
                idx1[wire] = 1
                idx0 = [slice(None)] * n
                idx0[wire] = 0
                # both outcome weights are summed directly (1 - p1 loses ten digits when p1 is close to 1)
                w1 = float(np.sum(np.abs(psi[tuple(idx1)]) ** 2))
                w0 = float(np.sum(np.abs(psi[tuple(idx0)]) ** 2))
                p1 = w1 / (w0 + w1)
                self.nodes[h] = (state, p1, wire)
                for outcome, pr in ((0, w0 / (w0 + w1)), (1, p1)):
                    if pr <= 1e-13:
                        continue
                    sel = [slice(None)] * n
                    sel[wire] = 1 - outcome
                    new = psi.copy()
                    new[tuple(sel)] = 0
                    new = new.reshape(-1)
                    new = new / np.linalg.norm(new)
                    if opt.get("reset") and outcome == 1:
                        new = sim.apply_matrix(new, sim.X, [wire], n)
                    ps = opt.get("postselect")
                    v = valid and (ps is None or ps == outcome)
                    self._walk(pos + 1, new, h + (outcome,), prob * pr, v)
                return
            if op[0] == "cond":
                if eval_expr(op[1], h):
                    m, w = sim.op_matrix_and_wires(op[2])
                    state = sim.apply_matrix(state, m, w, n)
            else:
                m, w = sim.op_matrix_and_wires(op)
                state = sim.apply_matrix(state, m, w, n)
            pos += 1
        self.leaves.append(Branch(h, prob, state, valid))

    # ---- analytic, branch-averaged results (postselection: condition on the valid branches) ----------
    def valid_mass(self):
        return sum(b.prob for b in self.leaves if b.valid)

    def average(self, fn):
        z = self.valid_mass()
        return sum(b.prob * fn(b) for b in self.leaves if b.valid) / z

    def expval(self, obs):
        return self.average(lambda b: sim.expval(b.state, obs, self.n))

    def var(self, obs):
        m, w = sim.obs_matrix_and_wires(obs)

        def sq(b):
            v = sim.apply_matrix(b.state, m, w, self.n)
            return float(np.real(np.vdot(v, v)))

        return self.average(sq) - self.expval(obs) ** 2

    def probs(self, wires):
        z = self.valid_mass()
        out = np.zeros(2 ** len(wires))
        for b in self.leaves:
            if b.valid:
                out += b.prob * sim.probs(b.state, wires, self.n)
        return out / z

    def expval_mv(self, expr):
        return self.average(lambda b: eval_expr(expr, b.h))

    def var_mv(self, expr):
        return self.average(lambda b: eval_expr(expr, b.h) ** 2) - self.expval_mv(expr) ** 2

    def probs_mv(self, ks):
        z = self.valid_mass()
        out = np.zeros(2 ** len(ks))
        for b in self.leaves:
            if b.valid:
                idx = 0
                for k in ks:
                    idx = (idx << 1) | int(b.h[k])
                out[idx] += b.prob
        return out / z
