"""C13 -- measurement-based decompositions act deterministically (same unitary on every outcome branch).

Real code: the rule qfuncs themselves (Hadamard PPM, CNOT/CY/CZ lattice-surgery PPM, the measurement
based Adjoint(TemporaryAND) and QROM rules -- found by scanning the rule registry for rules whose queue
contains MidMeasure / PauliMeasure / Conditional), queuing, qp.cond / Conditional, measurement-value
arithmetic (MeasurementValue.concretize decides every classically controlled correction), allocate /
resolve_dynamic_wires for the burnable / zeroed work wires.
Stub: the measurement outcomes.  The simulator enumerates ALL 2^k outcome histories of every rule
(fault_enumeration level) on the independent reference state-vector simulator, which implements
Pauli-product measurements as projectors (I +- P)/2 -- no in-repo device executes PauliMeasure.
"""
from __future__ import annotations

ID = "C13"
LEVEL = "fault_enumeration"
TIERS = {
    "quick": {"runs": 1200, "wall": 80, "chunk": 20, "shrink_s": 20, "run_cap_s": 120},
    "thorough": {"runs": 120_000, "wall": 840, "chunk": 50, "shrink_s": 60, "run_cap_s": 120},
}
RULE = (
    "one run = one measurement-based rule x one random input state on its target wires x one random wire "
    "labelling; every outcome history of the rule's k measurements with non-zero probability is enumerated "
    "(exhaustive over histories, random over inputs). On every branch the target wires must hold "
    "T|psi> (T = the operator's matrix; pure, i.e. unentangled from the work wires, global phase free) and "
    "the work wires the rule requested in the zero state must end in one pure state, the same for every history "
    "and every input (wires a rule requests in \"any\" state are handed over in a random state and not examined afterwards). "
    "distinct = distinct (rule, input seed, labelling, set of reachable histories); non-trivial = the rule "
    "has at least two reachable outcome histories."
)
SIM_TIME_NOTE = "no clock on this path"
REAL = ["the decomposition rule qfuncs (ops/qubit/non_parametric_ops.py, ops/op_math/controlled_ops.py, templates/subroutines/arithmetic/temporary_and.py, templates/subroutines/qrom.py)",
        "queuing, qp.cond / Conditional, MeasurementValue arithmetic (concretize), qp.allocate + resolve_dynamic_wires",
        "qp.matrix of the target operator and of non-elementary sub-operators a rule emits"]
STUBBED = ["measurement outcomes: enumerated exhaustively by the simulator",
           "execution of MidMeasure / PauliMeasure: reference projectors (no in-repo device executes PauliMeasure)"]
NOT_INJECTED = ["clock/network/disk faults: none exist on this path",
                "device-level execution of the rules (apply_mid_measure / apply_conditional are driven by C21)"]
ASSUMPTIONS = [
    "a branch-dependent global phase is allowed by the property and invisible to this check",
    "rules defined on a subspace get inputs from their documented domain (Adjoint(TemporaryAND): target = AND of the controls)",
    "Pauli product measurement: outcome 0 <-> eigenvalue +1, outcome 1 <-> eigenvalue -1 (documented)",
]

_ENV = {}


def preimport():
    setup()


def setup():
    if _ENV.get("ready"):
        return
    import warnings

    import numpy as np
    import pennylane as qp

    from ref import sim

    warnings.filterwarnings("ignore")
    qp.decomposition.enable_graph()
    _ENV.update(qp=qp, np=np, sim=sim, ready=True)
    _ENV["rules"] = _discover()
    from simkit.core import Streams, derive_seed

    try:
        for i in range(30):
            run_case(gen_case(Streams(derive_seed("warm", i)), "quick"))
    except Exception:  # noqa: BLE001 - warm-up only
        pass


# candidate operators: (registry name, constructor of a concrete instance on given wires, #target wires, domain)
def _candidates():
    qp = _ENV["qp"]
    return {
        "Hadamard": (lambda w: qp.Hadamard(w[0]), 1, None),
        "CNOT": (lambda w: qp.CNOT(w[:2]), 2, None),
        "CY": (lambda w: qp.CY(w[:2]), 2, None),
        "CZ": (lambda w: qp.CZ(w[:2]), 2, None),
        "Adjoint(TemporaryAND)": (lambda w, cv=(1, 1): qp.adjoint(qp.TemporaryAND(w[:3], control_values=cv)), 3, "and"),
        # 8 entries, 3 address wires, 2 target wires, 2 clean work wires (inputs: work wires in |0>)
        "QROM": (lambda w: qp.QROM(["01", "10", "11", "00", "10", "01", "00", "11"], control_wires=w[:3],
                                   target_wires=w[3:5], work_wires=w[5:7], clean=True), 7, "workzero"),
    }


def _record(rule, op):
    qp = _ENV["qp"]
    with qp.queuing.AnnotatedQueue() as q:
        if op.name.startswith("Adjoint("):
            rule(base=op.base)
        elif op.name == "QROM":
            rule(bitstrings=op.bitstrings, control_wires=op.control_wires, target_wires=op.target_wires,
                 work_wires=op.work_wires, clean=True)
        else:
            rule(*op.parameters, wires=op.wires, **op.hyperparameters)
    return qp.tape.QuantumScript.from_queue(q)


def _is_meas(o):
    return type(o).__name__ in ("MidMeasure", "PauliMeasure")


def _discover():
    """Scan the registry: every rule of the candidate operators whose queue contains a measurement."""
    qp = _ENV["qp"]
    found = []
    for name, (mk, nt, domain) in _candidates().items():
        try:
            op = mk(list(range(nt)))
            rules = list(qp.list_decomps(name))
        except Exception:  # noqa: BLE001
            continue
        for r in rules:
            try:
                tape = _record(r, op)
            except Exception:  # noqa: BLE001
                continue
            if any(_is_meas(o) or type(o).__name__ == "Conditional" for o in tape.operations):
                found.append((name, r.name))
    return found


def gen_case(streams, tier):
    w = streams["workload"]
    rules = _ENV.get("rules") or [("Hadamard", "_hadamard_ppm")]
    name, rname = rules[w.randrange(len(rules))]
    nt = _candidates()[name][1]
    case = {"op": name, "rule": rname, "input_seed": w.getrandbits(30),
            "control_values": [w.randint(0, 1), w.randint(0, 1)]}
    if name == "QROM":
        # random tables: 2-8 entries of 1-3 bits, possibly one address wire more than needed
        L = w.choice([2, 3, 4, 4, 5, 6, 7, 8])
        width = w.randint(1, 3)
        n_active = max(1, (L - 1).bit_length())
        n_control = n_active + (1 if (L <= 4 and w.random() < 0.4) else 0)
        n_work = max(1, n_control - 1) + (1 if w.random() < 0.2 else 0)
        case["qrom"] = {"bitstrings": ["".join(str(w.randint(0, 1)) for _ in range(width)) for _ in range(L)],
                        "n_control": n_control, "n_work": n_work}
        nt = n_control + width + n_work
    case["wires"] = w.sample(range(12), nt)
    return case


# ------------------------------------------------------------------------------------------------


def _pauli_matrix(word):
    sim = _ENV["sim"]
    return sim._kron(*[sim.PAULI[c] for c in word])


def _op_matrix(o):
    """Reference matrix for elementary gates by name; PennyLane's own matrix for composite sub-operators."""
    qp, np, sim = _ENV["qp"], _ENV["np"], _ENV["sim"]
    try:
        return sim.gate_matrix(o.name, [float(x) for x in o.parameters])
    except Exception:  # noqa: BLE001
        return np.asarray(qp.matrix(o))


def _enumerate(ops, state, pos, n):
    """All outcome histories: yields (history tuple, probability, final state)."""
    np, sim = _ENV["np"], _ENV["sim"]

    def walk(i, st, hist, outcomes, prob):
        while i < len(ops):
            o = ops[i]
            tname = type(o).__name__
            if tname in ("MidMeasure", "PauliMeasure"):
                ws = [pos[x] for x in o.wires]
                if tname == "MidMeasure":
                    P = sim.Z
                else:
                    P = _pauli_matrix(o.pauli_word)
                eye = np.eye(P.shape[0])
                for outcome in (0, 1):
                    proj = (eye + (1 - 2 * outcome) * P) / 2
                    new = sim.apply_matrix(st, proj, ws, n)
                    pr = float(np.real(np.vdot(new, new)))
                    if pr < 1e-12:
                        continue
                    ps = getattr(o, "postselect", None)
                    if ps is not None and ps != outcome:
                        continue
                    new = new / np.sqrt(pr)
                    if tname == "MidMeasure" and getattr(o, "reset", False) and outcome == 1:
                        new = sim.apply_matrix(new, sim.X, ws, n)
                    yield from walk(i + 1, new, hist + (outcome,), {**outcomes, o: outcome}, prob * pr)
                return
            if tname == "Conditional":
                mv = o.meas_val
                val = mv.concretize({m: outcomes[m] for m in mv.measurements})
                if bool(val):
                    b = o.base
                    st = sim.apply_matrix(st, _op_matrix(b), [pos[x] for x in b.wires], n)
            elif tname in ("Allocate", "Deallocate"):
                pass
            else:
                st = sim.apply_matrix(st, _op_matrix(o), [pos[x] for x in o.wires], n)
            i += 1
        yield hist, prob, st

    yield from walk(0, state, (), {}, 1.0)


def _ideal_qrom(q):
    """Documented QROM action, written independently: |a>|t>|w> -> |a>|t xor bitstrings[a]>|w>, identity
    for addresses beyond the table (qp.matrix(QROM) itself was seen to differ from this for 1-bit data, so
    it is not used as the specification)."""
    np = _ENV["np"]
    bits, nc, nw = q["bitstrings"], q["n_control"], q["n_work"]
    width = len(bits[0])
    n = nc + width + nw
    T = np.zeros((2**n, 2**n), dtype=complex)
    for idx in range(2**n):
        b = [(idx >> (n - 1 - k)) & 1 for k in range(n)]
        a = 0
        for x in b[:nc]:
            a = (a << 1) | x
        data = [int(x) for x in bits[a]] if a < len(bits) else [0] * width
        out = b[:nc] + [x ^ y for x, y in zip(b[nc:nc + width], data)] + b[nc + width:]
        j = 0
        for x in out:
            j = (j << 1) | x
        T[j, idx] = 1
    return T


def _reduced(state, keep, n):
    np = _ENV["np"]
    psi = np.moveaxis(state.reshape([2] * n), keep, range(len(keep))).reshape(2 ** len(keep), -1)
    return psi @ psi.conj().T


def run_case(case):
    import hashlib
    import json

    qp, np, sim = _ENV["qp"], _ENV["np"], _ENV["sim"]
    violations = []
    name, rname, labels = case["op"], case["rule"], case["wires"]
    sig = {"op": name, "rule": rname}
    counters = {"rule:" + rname: 1, "histories": 0, "branches_checked": 0}

    def viol(klass, extra, detail):
        if len(violations) < 3:
            violations.append({"klass": klass, "sig": dict(sig, **extra), "detail": detail})

    mk, nt, domain = _candidates()[name]
    try:
        if name == "Adjoint(TemporaryAND)":
            op = mk(labels, tuple(case["control_values"]))
        elif name == "QROM" and case.get("qrom"):
            q = case["qrom"]
            nc, nw = q["n_control"], q["n_work"]
            width = len(q["bitstrings"][0])
            op = qp.QROM(q["bitstrings"], control_wires=labels[:nc], target_wires=labels[nc:nc + width],
                         work_wires=labels[nc + width:nc + width + nw], clean=True)
            nt = len(labels)
        else:
            op = mk(labels)
        rule = qp.list_decomps(name)[rname]
        tape = _record(rule, op)
        # what the rule itself asks of each work wire it allocates: "zero" wires arrive in |0>, "any" wires
        # may arrive in whatever state the allocator has at hand
        requested = [str(getattr(o.state, "value", o.state)) for o in tape.operations
                     if type(o).__name__ == "Allocate" for _ in o.wires]
        (tape,), _ = qp.transforms.resolve_dynamic_wires(tape, min_int=100)
    except Exception as e:  # noqa: BLE001
        viol("unexpected_exception", {"exc": type(e).__name__}, {"error": repr(e)[:300]})
        tape = None
    hist_sets = []
    if tape is not None:
        ops = list(tape.operations)
        all_wires = list(labels) + [x for x in tape.wires if x not in labels]
        pos = {x: i for i, x in enumerate(all_wires)}
        n = len(all_wires)
        targets = [pos[x] for x in labels]
        aux = [i for i in range(n) if i not in targets]
        if name == "QROM":
            T = _ideal_qrom(case["qrom"] if case.get("qrom") else
                            {"bitstrings": ["01", "10", "11", "00", "10", "01", "00", "11"], "n_control": 3, "n_work": 2})
        elif name.startswith("Adjoint("):
            T = np.asarray(qp.matrix(op, wire_order=labels))
        else:
            T = sim.gate_matrix(name)
        per_input_aux = []
        for rep in range(2):
            g = np.random.Generator(np.random.PCG64(case["input_seed"] + rep))
            if domain == "workzero":
                # address + target wires carry the random state, the work wires start in |0>
                k = nt - (case["qrom"]["n_work"] if case.get("qrom") else 2)
                c = g.normal(size=2**k) + 1j * g.normal(size=2**k)
                c /= np.linalg.norm(c)
                psi_t = np.kron(c, sim.zero_state(nt - k))
            elif domain == "and":
                # controls in a random state, target = AND of the controls (the forward operator's image)
                c = g.normal(size=4) + 1j * g.normal(size=4)
                c /= np.linalg.norm(c)
                fwd = np.asarray(qp.matrix(op.base, wire_order=labels))
                psi_t = fwd @ np.kron(c, np.array([1, 0], dtype=complex))
            else:
                psi_t = g.normal(size=2**nt) + 1j * g.normal(size=2**nt)
                psi_t /= np.linalg.norm(psi_t)
            # allocated work wires get consecutive labels from 100 on, in allocation order, as long as none
            # is reused; a wire the rule requested in "any" state is handed over in a random state
            dyn = [x for x in all_wires if x not in labels]
            any_wires = set()
            if aux and len(dyn) == len(requested) and "any" in requested:
                aux_state = np.array([1.0 + 0j])
                for x, req in zip(dyn, requested):
                    if req == "any":
                        v = g.normal(size=2) + 1j * g.normal(size=2)
                        v /= np.linalg.norm(v)
                        any_wires.add(pos[x])
                        counters["work_wires_handed_over_dirty"] = 1
                    else:
                        v = np.array([1.0 + 0j, 0.0])
                    aux_state = np.kron(aux_state, v)
                full = np.kron(psi_t, aux_state)
            else:
                full = np.kron(psi_t, sim.zero_state(len(aux))) if aux else psi_t
            expected_t = T @ psi_t
            rho_exp = np.outer(expected_t, expected_t.conj())
            branches = list(_enumerate(ops, full, pos, n))
            hist_sets.append(sorted(h for h, p, _ in branches))
            aux_states = {}
            total = 0.0
            for h, p, st in branches:
                total += p
                counters["branches_checked"] += 1
                rho_t = _reduced(st, targets, n)
                if not np.allclose(rho_t, rho_exp, atol=1e-8):
                    fid = float(np.real(np.vdot(expected_t, rho_t @ expected_t)))
                    viol("branch_does_not_implement_target", {"n_measurements": len(h)},
                         {"history": list(h), "branch_probability": round(p, 6), "fidelity_with_target": round(fid, 8),
                          "purity": round(float(np.real(np.trace(rho_t @ rho_t))), 8), "wires": labels,
                          "control_values": case["control_values"] if domain == "and" else None})
                    break
                known_aux = [i for i in aux if i not in any_wires]
                if known_aux:
                    rho_a = _reduced(st, known_aux, n)
                    if abs(float(np.real(np.trace(rho_a @ rho_a))) - 1) > 1e-8:
                        viol("work_wires_not_in_a_pure_state", {}, {"history": list(h)})
                        break
                    aux_states[h] = rho_a
            if abs(total - 1) > 1e-8 and not violations:
                viol("branch_probabilities_do_not_sum_to_one", {}, {"total": total})
            # "end in a known state": one state, whatever the measurement outcomes were
            if not violations and aux_states:
                hs = sorted(aux_states)
                for h in hs[1:]:
                    if not np.allclose(aux_states[h], aux_states[hs[0]], atol=1e-8):
                        viol("work_wire_state_depends_on_history", {},
                             {"history_a": list(hs[0]), "history_b": list(h)})
                        break
            per_input_aux.append(aux_states)
            if violations:
                break
        if not violations and len(per_input_aux) == 2:
            for h in set(per_input_aux[0]) & set(per_input_aux[1]):
                if not np.allclose(per_input_aux[0][h], per_input_aux[1][h], atol=1e-8):
                    viol("work_wire_state_depends_on_input", {}, {"history": list(h)})
                    break
        counters["histories"] = len(hist_sets[0]) if hist_sets else 0
    hsh = hashlib.sha256(json.dumps([name, rname, labels, case["input_seed"], case["control_values"], hist_sets],
                                    default=str).encode())
    return {"violations": violations, "digest": hsh.hexdigest()[:24],
            "nontrivial": bool(hist_sets and len(hist_sets[0]) > 1), "counters": counters, "sim_time": 0.0,
            "case": case, "summary": {"rule": rname, "histories": hist_sets[0][:16] if hist_sets else []}}


def shrink_candidates(case):
    if case["wires"] != list(range(len(case["wires"]))):
        yield dict(case, wires=list(range(len(case["wires"]))))
    if case["input_seed"] != 1:
        yield dict(case, input_seed=1)
