"""C22 -- dynamic wire allocation never aliases live wires; resolved circuit == fresh-wire circuit.

Real code: resolve_dynamic_wires, _WireManager, Allocate/Deallocate, device_resolve_dynamic_wires and
default.qubit's execution of the resolved circuit (deferred resets).  The simulator owns (a) the
outcomes of every reset the transform inserts -- the resolved circuit is walked by the branch
enumerator over *all* reset outcome histories, and the outcome-weighted reduced state of the data
wires must equal the fresh-wire reference -- and (b) register exhaustion as the injected fault:
register sizes are drawn so that the pool runs dry mid-history.
"""
from __future__ import annotations

ID = "C22"
LEVEL = "exploration"
TIERS = {
    "quick": {"runs": 6000, "wall": 80, "chunk": 60, "shrink_s": 40, "run_cap_s": 120},
    "thorough": {"runs": 1_000_000, "wall": 840, "chunk": 100, "shrink_s": 120, "run_cap_s": 120},
}
RULE = (
    "one run = one history of nested and overlapping allocate/deallocate scopes (state zero|any, restored "
    "true|false, 1-2 wires each, <=6 allocations, <=3 live at once) interleaved with gates on 2-3 data wires "
    "that honour the promises made (restored scopes are compute-use-uncompute, dirty-ancilla scopes use the "
    "toggling pattern), resolved with random zeroed / any_state registers (dirty wires are really dirty), "
    "min_int and allow_resets -- register sizes are drawn to run dry in a third of the runs. Structural "
    "oracle on the resolved tape (liveness replay), semantic oracle over every reset-outcome branch, and the "
    "device's own resolution executed on default.qubit. distinct = distinct digest of (history, registers, "
    "resolved wire assignment); non-trivial = a concrete wire was reused by a second allocation, or a reset "
    "was inserted, or the registers ran dry."
)
SIM_TIME_NOTE = "no clock on this path"
REAL = ["pennylane.transforms.resolve_dynamic_wires (_WireManager, _new_ops)", "pennylane.allocation (Allocate, Deallocate, DynamicWire)",
        "pennylane.devices.preprocess.device_resolve_dynamic_wires + default.qubit analytic execution (deferred measurements)"]
STUBBED = ["outcomes of inserted resets: enumerated exhaustively by the reference branch enumerator on the resolved tape"]
NOT_INJECTED = ["clock/network/disk faults: none exist on this path",
                "thread interleavings: the transform is a pure single-threaded pass",
                "magic-state allocations (rejected by the transform by design)"]
ASSUMPTIONS = [
    "weakest fit of the eleven: there is no scheduler nondeterminism; the simulator contributes exhaustive reset-outcome histories and register exhaustion",
    "generated programs honour their promises (restored scopes restore, dirty-ancilla scopes do not depend on the ancilla's state); otherwise 'same result as a fresh wire' is not defined",
    "under exhaustion the only acceptable outcomes are a valid resolution or AllocationError",
]

_ENV = {}


def preimport():
    setup()


def setup():
    if _ENV.get("ready"):
        return
    import warnings

    import numpy as np
    import pennylane as qp
    from pennylane.allocation import Allocate, AllocateState, Deallocate
    from pennylane.exceptions import AllocationError
    from pennylane.wires import DynamicWire

    from checks import qgen
    from ref import branch, sim

    warnings.filterwarnings("ignore")
    _ENV.update(qp=qp, np=np, qgen=qgen, sim=sim, branch=branch, Allocate=Allocate, Deallocate=Deallocate,
                AllocateState=AllocateState, AllocationError=AllocationError, DynamicWire=DynamicWire, ready=True)
    from simkit.core import Streams, derive_seed

    try:
        for i in range(80):
            run_case(gen_case(Streams(derive_seed("warm", i)), "quick"))
    except Exception:  # noqa: BLE001 - warm-up only
        pass


# ------------------------------------------------------------------------------------------------
# generation
# ------------------------------------------------------------------------------------------------


def _gate(w, wires):
    from checks import qgen

    k = w.random()
    if k < 0.45 or len(wires) == 1:
        return [w.choice(["RX", "RY", "RZ"]), [w.choice(wires)], [qgen.rand_angle(w)]]
    if k < 0.6:
        return [w.choice(["Hadamard", "S", "PauliX", "T"]), [w.choice(wires)], []]
    return [w.choice(["CNOT", "CZ", "CRY"]), w.sample(wires, 2), []] if k < 0.85 else \
        ["CRX", w.sample(wires, 2), [qgen.rand_angle(w)]]


def _fix(g):
    if g[0] == "CRY" and not g[2]:
        g[2] = [0.7]
    return g


def _gen_scope(w, st, depth, frozen, data):
    """Append one allocation scope (and possibly nested ones) to st['stmts']."""
    if st["allocs"] >= 6 or depth > 2:
        return
    aid = st["allocs"]
    st["allocs"] += 1
    free = [x for x in data if x not in frozen]
    kind = st.pop("force_kind", None) or w.choice(["zero_scratch", "zero_scratch", "zero_restored", "zero_restored",
                                                  "any_dirty", "any_scratch"])
    if kind in ("any_dirty", "any_scratch") and len(free) < 2:
        kind = "zero_scratch"
    if kind == "zero_restored" and len(free) < 2:
        kind = "zero_scratch"
    stmts = st["stmts"]
    if kind == "zero_scratch":
        n = w.choice([1, 1, 2])
        stmts.append(["alloc", aid, n, "zero", False])
        dyn = [["d", aid, j] for j in range(n)]
        for _ in range(w.randint(1, 4)):
            if w.random() < 0.3 and depth < 2:
                _gen_scope(w, st, depth + 1, frozen, data)
            else:
                pool = free + dyn
                g = _fix(_gate(w, list(range(len(pool)))))
                stmts.append(["g", [g[0], [pool[i] for i in g[1]], g[2]]])
        stmts.append(["dealloc", aid])
    elif kind == "zero_restored":
        stmts.append(["alloc", aid, 1, "zero", True])
        a = ["d", aid, 0]
        ctrls = w.sample(free, w.choice([1, 1, 2]) if len(free) > 2 else 1)
        compute = []
        if len(ctrls) == 2:
            compute.append(["Toffoli", [ctrls[0], ctrls[1], a], []])
        else:
            compute.append(["CNOT", [ctrls[0], a], []])
        # the ancilla stays a classical copy of its controls (a computational-basis control of the
        # middle part), which is what makes "uncompute restores |0>" true whatever the middle does
        for g in compute:
            stmts.append(["g", g])
        inner_frozen = frozen | set(ctrls)
        targets = [x for x in data if x not in inner_frozen]
        for _ in range(w.randint(1, 3)):
            if w.random() < 0.3 and depth < 2 and targets:
                _gen_scope(w, st, depth + 1, inner_frozen, data)
            elif targets:
                t = w.choice(targets)
                stmts.append(["g", w.choice([["CNOT", [a, t], []], ["CZ", [a, t], []],
                                              ["CRX", [a, t], [0.9]]])])
        for g in reversed(compute):
            stmts.append(["g", g])  # CNOT, Toffoli and Hadamard are self-inverse
        stmts.append(["dealloc", aid])
    else:  # dirty ancilla: the toggling pattern is independent of the ancilla's state and restores it
        scratch = kind == "any_scratch"
        stmts.append(["alloc", aid, 1, "any", not scratch])
        a = ["d", aid, 0]
        c, t = w.sample(free, 2)
        for g in (["CNOT", [c, a], []], ["CNOT", [a, t], []], ["CNOT", [c, a], []], ["CNOT", [a, t], []]):
            stmts.append(["g", g])
        if scratch:
            # any-state wire that is NOT promised back: left dirty by gates that touch nothing else
            for _ in range(w.randint(1, 2)):
                stmts.append(["g", w.choice([["PauliX", [a], []], ["Hadamard", [a], []], ["RY", [a], [1.1]]])])
        stmts.append(["dealloc", aid])
    if depth == 0 and kind == "zero_restored" and w.random() < 0.35 and st["allocs"] <= 4:
        # a restored scope directly followed (no operation in between) by an any-state scratch scope that is
        # left dirty, then a zero request
        st["force_kind"] = "any_scratch"
        _gen_scope(w, st, depth, frozen, data)
        st["force_kind"] = w.choice(["zero_scratch", "zero_restored"])
        _gen_scope(w, st, depth, frozen, data)
        st.pop("force_kind", None)


def gen_case(streams, tier):
    from checks import qgen

    w, f = streams["workload"], streams["fault"]
    s = w.choice([2, 3, 3])
    data = list(range(s))
    st = {"stmts": [], "allocs": 0}
    for i in data:
        st["stmts"].append(["g", ["RY", [i], [qgen.rand_angle(w)]]])
    for _ in range(w.randint(1, 4)):
        if w.random() < 0.7:
            _gen_scope(w, st, 0, frozenset(), data)
        else:
            st["stmts"].append(["g", _fix(_gate(w, data))])
    # free-form scratch segment: allocations whose lifetimes overlap WITHOUT nesting (deallocated in any
    # order), gates on any live wire at any time, later allocations after earlier ones were returned dirty
    if w.random() < 0.45 and st["allocs"] <= 3:
        live = []
        for _ in range(w.randint(4, 11)):
            r = w.random()
            if r < 0.35 and len(live) < 3 and st["allocs"] < 6:
                aid = st["allocs"]
                st["allocs"] += 1
                st["stmts"].append(["alloc", aid, 1, "zero", False])
                live.append(aid)
                if len(live) >= 2 and w.random() < 0.5:
                    # hand back the OLDEST live wire right after a newer one was opened (non-LIFO order)
                    st["stmts"].append(["dealloc", live.pop(0)])
            elif r < 0.50 and live:
                aid = live.pop(w.randrange(len(live)))  # not necessarily the most recent one
                st["stmts"].append(["dealloc", aid])
            elif live and w.random() < 0.6:
                # make the newest scratch wire matter: entangle it with a data wire, in either direction
                a, d = ["d", live[-1], 0], w.choice(data)
                st["stmts"].append(["g", ["CNOT", [d, a] if w.random() < 0.5 else [a, d], []]])
            else:
                pool = data + [["d", a, 0] for a in live]
                g = _fix(_gate(w, list(range(len(pool)))))
                st["stmts"].append(["g", [g[0], [pool[i] for i in g[1]], g[2]]])
        for aid in live:
            st["stmts"].append(["dealloc", aid])
    need = 3
    exhaust = f.random() < 0.33
    nz = f.randint(0, 1) if exhaust else f.randint(0, need)
    na = f.randint(0, 1) if exhaust else f.randint(0, need)
    zeroed = [10 + i for i in range(nz)]
    any_state = [20 + i for i in range(na)]
    min_int = None if (exhaust or f.random() < 0.4) else 30
    return {"static": s, "stmts": st["stmts"], "zeroed": zeroed, "any_state": any_state,
            "min_int": min_int, "allow_resets": f.random() < 0.7, "idle_measured": w.random() < 0.4,
            "api": w.choice(["ops", "ops", "functions", "context_manager"]),
            "reuse": w.random() < 0.3, "registers_as": w.choice(["list", "list", "tuple"]),
            "state_as": w.choice(["enum", "enum", "str"]),
            "dirty_angles": [qgen.rand_angle(w) for _ in any_state]}


# ------------------------------------------------------------------------------------------------
# execution
# ------------------------------------------------------------------------------------------------


def _build_tape(case):
    """The program as a PennyLane tape with DynamicWire objects; dirty register wires are prepared first."""
    qp, qgen = _ENV["qp"], _ENV["qgen"]
    DW, Allocate, Deallocate, AS = _ENV["DynamicWire"], _ENV["Allocate"], _ENV["Deallocate"], _ENV["AllocateState"]
    dyn = {}
    ops = []
    api = case.get("api", "ops")
    regs = {}
    # "ops": Allocate / Deallocate operators put on the tape directly; "functions": the program calls
    # qp.allocate(...) / qp.deallocate(...) while it is recorded; "context_manager": it enters and leaves the
    # register qp.allocate returns (what a `with` statement does), in whatever order the history says
    with qp.queuing.AnnotatedQueue() as q:
        for wlabel, ang in zip(case["any_state"], case["dirty_angles"]):
            qp.RY(ang, wires=wlabel)
            qp.CNOT(wires=[0, wlabel])  # entangled with a data wire: really dirty
        for st in case["stmts"]:
            if st[0] == "alloc":
                _, aid, n, state, restored = st
                if api == "ops":
                    ws = [DW() for _ in range(n)]
                    # (the documented type of `state` is the enum or its plain string)
                    Allocate(ws, state=AS(state) if case.get("state_as", "enum") == "enum" else str(state),
                             restored=restored)
                else:
                    reg = qp.allocate(n, state=state, restored=restored)
                    if api == "context_manager":
                        reg.__enter__()
                    regs[aid] = reg
                    ws = list(reg)
                for j, x in enumerate(ws):
                    dyn[(aid, j)] = x
            elif st[0] == "dealloc":
                ws = [v for (a, j), v in sorted(dyn.items(), key=lambda kv: kv[0][1]) if a == st[1]]
                if api == "ops":
                    Deallocate(ws)
                elif api == "functions":
                    qp.deallocate(regs[st[1]])
                else:
                    regs[st[1]].__exit__(None, None, None)
            else:
                name, wires, params = st[1]
                ws = [dyn[(x[1], x[2])] if isinstance(x, list) else x for x in wires]
                getattr(qp, name)(*params, wires=ws)
        qp.probs(wires=list(range(case["static"])))
    return qp.tape.QuantumScript.from_queue(q), dyn


def _reference(case):
    """Every allocation gets fresh wires in |0>; returns (state, n, data wires)."""
    sim = _ENV["sim"]
    s = case["static"]
    label = {i: i for i in range(s)}
    nxt = s
    for wl in case["any_state"]:
        label[("reg", wl)] = nxt
        nxt += 1
    for st in case["stmts"]:
        if st[0] == "alloc":
            for j in range(st[2]):
                label[(st[1], j)] = nxt
                nxt += 1
    ops = []
    for wl, ang in zip(case["any_state"], case["dirty_angles"]):
        ops.append(["RY", [label[("reg", wl)]], [ang]])
        ops.append(["CNOT", [0, label[("reg", wl)]], []])
    for st in case["stmts"]:
        if st[0] == "g":
            name, wires, params = st[1]
            ops.append([name, [label[(x[1], x[2])] if isinstance(x, list) else label[x] for x in wires], params])
    return sim.run(ops, nxt), nxt


def _reduced(state, keep, n):
    np = _ENV["np"]
    psi = np.moveaxis(state.reshape([2] * n), keep, range(len(keep))).reshape(2 ** len(keep), -1)
    return psi @ psi.conj().T


def run_case(case):
    import hashlib
    import json

    qp, np, sim, branch = _ENV["qp"], _ENV["np"], _ENV["sim"], _ENV["branch"]
    AllocationError = _ENV["AllocationError"]
    violations = []
    counters = {"allocations": sum(1 for s in case["stmts"] if s[0] == "alloc"), "resets_inserted": 0,
                "api:" + case.get("api", "ops"): 1,
                "wire_reuses": 0, "reset_outcome_branches": 0}
    sig = {"allow_resets": case["allow_resets"], "min_int": case["min_int"] is not None}

    def viol(klass, extra, detail):
        if len(violations) < 3:
            violations.append({"klass": klass, "sig": dict(sig, **extra), "detail": detail})

    s = case["static"]
    data = list(range(s))
    tape, dyn = _build_tape(case)
    ref_state, ref_n = _reference(case)
    ref_rho = _reduced(ref_state, data, ref_n)
    assignment = []
    resolved = None
    # the registers as the caller holds them: lists (or tuples) that outlive one application of the transform
    as_seq = tuple if case.get("registers_as") == "tuple" else list
    zl, al = as_seq(case["zeroed"]), as_seq(case["any_state"])
    if case.get("reuse"):
        # the same configured transform applied once before (as a QNode does on every call): the second
        # application must find the registers as the caller wrote them
        counters["transform_applied_twice"] = 1
        try:
            qp.transforms.resolve_dynamic_wires(tape, zeroed=zl, any_state=al, min_int=case["min_int"],
                                                allow_resets=case["allow_resets"])
        except AllocationError:
            pass
        if list(zl) != list(case["zeroed"]) or list(al) != list(case["any_state"]):
            # not a violation of this property by itself (that would be "transforms never modify their
            # input"); what counts is whether the second application below still resolves correctly
            counters["caller_registers_modified_by_first_application"] = 1
    try:
        (resolved,), _ = qp.transforms.resolve_dynamic_wires(
            tape, zeroed=zl, any_state=al,
            min_int=case["min_int"], allow_resets=case["allow_resets"])
    except AllocationError as e:
        # legitimate only if the registers really cannot serve the history
        counters["fault:register_exhaustion"] = 1
        live, peak = 0, 0
        for st in case["stmts"]:
            if st[0] == "alloc":
                live += st[2]
                peak = max(peak, live)
            elif st[0] == "dealloc":
                live -= next(x[2] for x in case["stmts"] if x[0] == "alloc" and x[1] == st[1])
        capacity = len(case["zeroed"]) + len(case["any_state"])
        if case["min_int"] is not None:
            viol("allocation_error_although_new_wires_allowed", {}, {"error": str(e)[:200]})
        elif peak <= capacity and case["allow_resets"]:
            viol("allocation_error_although_registers_suffice", {},
                 {"error": str(e)[:200], "peak_live": peak, "capacity": capacity})
    except Exception as e:  # noqa: BLE001
        viol("unexpected_exception", {"exc": type(e).__name__}, {"error": repr(e)[:300]})
    if resolved is not None:
        # ---- structural oracle: replay liveness over the resolved tape -----------------------------
        it = iter(resolved.operations)
        # skip the dirty-register preparation
        for _ in range(2 * len(case["any_state"])):
            next(it)
        live = {}  # (aid, j) -> concrete
        used_before = set()
        allowed = set(case["zeroed"]) | set(case["any_state"])
        ok = True
        res_spec = []
        for wl, ang in zip(case["any_state"], case["dirty_angles"]):
            res_spec += [["RY", [wl], [ang]], ["CNOT", [0, wl], []]]
        pending_allocs = []
        for st in case["stmts"]:
            if not ok:
                break
            if st[0] == "alloc":
                pending_allocs.append(st)
                for j in range(st[2]):
                    live[(st[1], j)] = None
            elif st[0] == "dealloc":
                for key in [k for k in live if k[0] == st[1]]:
                    if live[key] is not None:
                        used_before.add(live[key])
                    del live[key]
            else:
                op = next(it, None)
                while op is not None and op.name in ("MidMeasure", "MidMeasureMP"):
                    counters["resets_inserted"] += 1
                    res_spec.append(["measure", op.wires[0], {"reset": bool(op.reset), "postselect": None}])
                    if not op.reset:
                        viol("inserted_measurement_without_reset", {}, {"wire": repr(op.wires[0])})
                    op = next(it, None)
                if op is None:
                    viol("resolved_tape_too_short", {}, {})
                    ok = False
                    break
                name, wires, params = st[1]
                if op.name != name or len(op.wires) != len(wires):
                    viol("resolved_operation_differs", {}, {"expected": name, "observed": op.name})
                    ok = False
                    break
                conc = list(op.wires)
                for x, c in zip(wires, conc):
                    if isinstance(x, list):
                        key = (x[1], x[2])
                        if key not in live:
                            viol("dynamic_wire_used_after_deallocation", {}, {"wire": key})
                            ok = False
                            break
                        if live[key] is None:
                            live[key] = c
                            assignment.append([list(key), c if isinstance(c, int) else repr(c)])
                            if c in used_before:
                                counters["wire_reuses"] += 1
                            others = {v for k, v in live.items() if k != key and v is not None}
                            if c in others:
                                viol("two_live_dynamic_wires_share_a_wire", {},
                                     {"wire": c, "dynamic": list(key), "live": {str(k): v for k, v in live.items()}})
                                ok = False
                            if c in data:
                                viol("dynamic_wire_on_data_wire", {}, {"wire": c, "dynamic": list(key)})
                                ok = False
                            if c not in allowed and not (case["min_int"] is not None and isinstance(c, int)
                                                         and c >= case["min_int"]):
                                viol("dynamic_wire_outside_registers", {}, {"wire": repr(c), "registers": sorted(allowed)})
                                ok = False
                        elif live[key] != c:
                            viol("dynamic_wire_changed_concrete_wire", {}, {"dynamic": list(key), "was": live[key], "now": c})
                            ok = False
                    elif c != x:
                        viol("static_wire_remapped", {}, {"expected": x, "observed": repr(c)})
                        ok = False
                res_spec.append([name, conc, params])
        leftover = [o for o in it if o.name not in ("MidMeasure", "MidMeasureMP")]
        if ok and leftover:
            viol("resolved_tape_has_extra_operations", {}, {"extra": [o.name for o in leftover][:5]})
            ok = False
        if ok and any(o.name in ("Allocate", "Deallocate") for o in resolved.operations):
            viol("allocation_ops_left_in_resolved_tape", {}, {})
            ok = False
        if not case["allow_resets"] and counters["resets_inserted"]:
            viol("reset_inserted_although_forbidden", {}, {"resets": counters["resets_inserted"]})
        # ---- semantic oracle: every reset-outcome branch equals the fresh-wire reference -----------
        if ok:
            labels = sorted({w for o in res_spec for w in (o[1] if o[0] != "measure" else [o[1]])} | set(data))
            pos = {l: i for i, l in enumerate(labels)}
            spec = []
            for o in res_spec:
                if o[0] == "measure":
                    spec.append(["measure", pos[o[1]], o[2]])
                else:
                    spec.append([o[0], [pos[x] for x in o[1]], o[2]])
            n = len(labels)
            if n <= 12:
                tree = branch.Tree(spec, n)
                counters["reset_outcome_branches"] = len(tree.leaves)
                # Measuring-and-resetting a dirty wire that is entangled with the data wires collapses
                # them differently on each outcome; what the user observes is the outcome-weighted
                # mixture, and that mixture must be the fresh-wire reduced state.
                rho = sum(leaf.prob * _reduced(leaf.state, [pos[d] for d in data], n)
                          for leaf in tree.leaves if leaf.prob >= 1e-13)
                if not np.allclose(rho, ref_rho, atol=1e-8):
                    viol("resolved_circuit_differs_from_fresh_wires", {"with_resets": len(tree.leaves) > 1},
                         {"reset_outcome_branches": [[list(b.h), round(b.prob, 6)] for b in tree.leaves][:8],
                          "probs_resolved": np.round(np.real(np.diag(rho)), 6).tolist(),
                          "probs_fresh": np.round(np.real(np.diag(ref_rho)), 6).tolist(),
                          "assignment": assignment})
    # ---- the device's own resolution + execution ----------------------------------------------------
    if not violations:
        expected_dev = np.real(np.diag(ref_rho))
        dev_tape = tape
        idle = []
        if case.get("idle_measured"):
            # a static wire that no gate touches and that is only measured still belongs to the static
            # circuit: it must read |0>, whatever the allocator did
            idle = [s]
            dev_tape = tape.copy(measurements=[qp.probs(wires=list(range(s + 1)))])
            expected_dev = np.kron(expected_dev, np.array([1.0, 0.0]))
            counters["device_runs_with_idle_measured_wire"] = 1
        for dev_wires in (None, list(range(s)) + idle + list(case["any_state"]) + [40, 41, 42, 43]):
            try:
                dev = qp.device("default.qubit", wires=dev_wires)
                got = qp.execute([dev_tape], dev, diff_method=None, cache=False)[0]
            except AllocationError:
                counters["fault:register_exhaustion"] = 1
                continue
            except Exception as e:  # noqa: BLE001
                viol("unexpected_exception", {"exc": type(e).__name__, "where": "device"}, {"error": repr(e)[:300]})
                break
            if not np.allclose(np.asarray(got, dtype=float), expected_dev, atol=1e-8):
                viol("device_execution_differs_from_fresh_wires",
                     {"device_wires": dev_wires is not None, "idle_measured_wire": bool(idle)},
                     {"observed": np.round(np.asarray(got, dtype=float), 6).tolist(),
                      "expected": np.round(expected_dev, 6).tolist()})
                break
    h = hashlib.sha256(json.dumps([case["stmts"], case["zeroed"], case["any_state"], case["min_int"],
                                   case["allow_resets"], assignment], sort_keys=True, default=str).encode())
    return {"violations": violations, "digest": h.hexdigest()[:24],
            "nontrivial": bool(counters["wire_reuses"] or counters["resets_inserted"]
                               or counters.get("fault:register_exhaustion")),
            "counters": counters, "sim_time": 0.0, "case": case,
            "summary": {"assignment": assignment[:10], "resets": counters["resets_inserted"]}}


def shrink_candidates(case):
    stmts = case["stmts"]
    # drop a whole scope (alloc .. dealloc of one id, including everything that mentions it)
    ids = [s[1] for s in stmts if s[0] == "alloc"]
    for aid in ids:
        def mentions(s):
            if s[0] in ("alloc", "dealloc"):
                return s[1] == aid
            return any(isinstance(x, list) and x[1] == aid for x in s[1][1])
        yield dict(case, stmts=[s for s in stmts if not mentions(s)])
    for i in range(len(stmts) - 1, -1, -1):
        if stmts[i][0] == "g":
            yield dict(case, stmts=stmts[:i] + stmts[i + 1:])
    if case["any_state"]:
        yield dict(case, any_state=case["any_state"][:-1], dirty_angles=case["dirty_angles"][:-1])
    if case["zeroed"]:
        yield dict(case, zeroed=case["zeroed"][:-1])
