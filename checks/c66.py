"""C66 -- local decomposition-rule contexts are isolated (per context, per thread, across exceptions).

Real code: local_decomps, add_decomps, list_decomps, has_decomp, _fix_decomp, get_fixed_decomp,
DecompCollection, DecompositionGraph.__init__ / qp.transforms.decompose(fixed_decomps=, alt_decomps=)
with the graph system enabled.  Nothing is stubbed: the threads are real threading.Thread objects
(fresh contextvars context each, as in production) run one at a time under the baton driver.
"""
from __future__ import annotations

import random

ID = "C66"
LEVEL = "exploration"
TIERS = {
    "quick": {"runs": 6000, "wall": 80, "chunk": 50, "shrink_s": 40, "run_cap_s": 120},
    "thorough": {"runs": 1_500_000, "wall": 840, "chunk": 100, "shrink_s": 120, "run_cap_s": 120},
}
RULE = (
    "one run = 2-4 real threads (plus threads spawned from inside contexts), each executing a generated "
    "program of <=12 statements (enter/leave nested local_decomps contexts, add marker rules, fix rules, "
    "observe list_decomps/get_fixed_decomp/has_decomp, raise inside a context, decompose a CRX tape with or "
    "without fixed_decomps/alt_decomps); the seeded driver decides which thread runs after every statement "
    "(L0) and additionally pre-empts threads at up to 3 seeded line events inside decomposition_rule.py / "
    "decomposition_graph.py (L2). distinct = distinct digest of the (thread, statement | file:line) "
    "interleaving + observations; non-trivial = a context switch happened while the descheduled thread "
    "had a local context open, or an exception was raised inside a context."
)
SIM_TIME_NOTE = "no virtual clock: the schedule is a sequence of hand-offs (counted as steps)"
REAL = ["pennylane.decomposition.decomposition_rule (whole module)",
        "pennylane.decomposition.decomposition_graph.DecompositionGraph, qp.transforms.decompose (graph enabled)",
        "threading.Thread + contextvars (CPython)"]
STUBBED = ["OS thread scheduling -> simkit.baton (one runnable thread at a time, seeded choice, sys.settrace line pre-emption)"]
NOT_INJECTED = [
    "clock/network/disk faults: none exist on this path",
    "global add_decomps outside any context and list_decomps of unknown names (they mutate the global registry by design; not part of the property)",
]
ASSUMPTIONS = [
    "a thread's view is compared with a per-thread stack-of-snapshots model after every statement; exceptions are injected only at statement boundaries of the generated program (plus the ValueError PennyLane raises for duplicate rule names)",
    "line-level pre-emption covers pure-Python lines of the two listed files only; C-level atomicity of dict/ContextVar operations is CPython's",
]

_ENV = {}
MARK_NAMES = ["Toffoli", "SWAP", "CSWAP", "ISWAP", "CCZ", "SISWAP"]  # unreachable from CRX decompositions
N_MARK = 16  # marker rules per thread slot
GATE_SET = ["RX", "RY", "RZ", "CNOT", "CZ", "Hadamard", "GlobalPhase", "PhaseShift"]
TRACE_FILES = ("decomposition/decomposition_rule.py", "decomposition/decomposition_graph.py")


class Boom(Exception):
    pass


class BoomBase(BaseException):
    """A fault that is not an `Exception` (like KeyboardInterrupt, GeneratorExit, a cancelled task)."""


def preimport():
    setup()


def setup():
    if _ENV.get("ready"):
        return
    import warnings

    import pennylane as qp
    from pennylane.decomposition import decomposition_rule as dr

    warnings.filterwarnings("ignore")
    qp.decomposition.enable_graph()
    markers = []
    for i in range(8 * N_MARK):
        def f(*params, wires=None, **kw):  # never selected: only its identity/name matters
            qp.GlobalPhase(0.0)

        markers.append(qp.register_resources({qp.GlobalPhase: 1}, name=f"mk_{i}")(f))
    crx_rules = list(qp.list_decomps(qp.CRX))
    names = MARK_NAMES + ["CRX"]
    g0 = {n: [r.name for r in qp.list_decomps(n)] for n in names}
    _ENV.update(qp=qp, dr=dr, markers=markers, crx_rules=crx_rules, g0=g0, names=names)
    # expected decompose outputs, computed alone
    exp = {}
    for k in [None] + list(range(len(crx_rules))):
        exp[k] = _decompose(k, None)
    for k in range(len(crx_rules)):
        exp[("alt", k)] = _decompose(None, k)
    _ENV["expected_decompose"] = exp
    _ENV["registry0"] = _registry_snapshot()
    # warm the primitives in the main thread (no simulated threads before the runner forks)
    try:
        for _ in range(3):
            with qp.decomposition.local_decomps():
                qp.add_decomps("SWAP", markers[-1])
                dr._fix_decomp("CSWAP", markers[-2])
                qp.list_decomps("SWAP"), dr.get_fixed_decomp("CSWAP"), qp.decomposition.has_decomp("SWAP")
                _decompose(1, None)
    except Exception:  # noqa: BLE001 - warm-up only; the search itself reports what is wrong
        pass
    _ENV["ready"] = True


def _registry_snapshot():
    qp = _ENV["qp"]
    # public API only: every operator name the harness touches + a digest of all known names
    return {n: [r.name for r in qp.list_decomps(n)] for n in _ENV["names"]}, {
        n: (qp.decomposition.decomposition_rule.get_fixed_decomp(n) or None) and
        qp.decomposition.decomposition_rule.get_fixed_decomp(n).name for n in _ENV["names"]}


def _decompose(fixed_k, alt_k):
    qp = _ENV["qp"]
    tape = qp.tape.QuantumScript([qp.CRX(0.5, [0, 1]), qp.Hadamard(1)], [qp.expval(qp.Z(0))])
    kw = {}
    if fixed_k is not None:
        kw["fixed_decomps"] = {qp.CRX: _ENV["crx_rules"][fixed_k]}
    if alt_k is not None:
        kw["alt_decomps"] = {qp.CRX: [_alt_rule(alt_k)]}
    (out,), _ = qp.transforms.decompose(tape, gate_set=set(GATE_SET), **kw)
    return [op.name for op in out.operations]


_ALT = {}


def _alt_rule(k):
    """A cheap custom CRX rule (distinct object per k) that the graph will prefer when offered."""
    qp = _ENV["qp"]
    if k not in _ALT:
        def body(phi, wires, **_):
            qp.RZ(0.0 * phi, wires=wires[0])

        _ALT[k] = qp.register_resources({qp.RZ: 1}, name=f"alt_crx_{k}")(body)
    return _ALT[k]


# ------------------------------------------------------------------------------------------------
# generation
# ------------------------------------------------------------------------------------------------


def _gen_block(w, depth, budget, allow_mut, sid, tid, recent=None):
    """Returns a list of statements; `budget` is a one-element list counting statements left.
    `recent`: operator names this thread's program added or fixed lately -- observations look at those
    names more often than at random ones (a rule can only be seen to outlive its context if somebody looks)."""
    block = []
    recent = [] if recent is None else recent

    def obs_name():
        if recent and w.random() < 0.6:
            return w.choice(recent[-3:])
        return w.choice(MARK_NAMES + ["CRX"])

    n = w.randint(1, 4)
    for _ in range(n):
        if budget[0] <= 0:
            break
        budget[0] -= 1
        r = w.random()
        sid[0] += 1
        if w.random() < 0.06 and depth < 2 and budget[0] >= 4:
            # directed: whatever a context computed about a name before it was left (normally or by an
            # exception) must not be what the very next context sees for that name
            nm = w.choice(MARK_NAMES)
            recent.append(nm)
            budget[0] -= 4
            first = [{"k": "add", "id": sid[0] * 100 + 1, "name": nm, "again": False},
                     {"k": "obs", "id": sid[0] * 100 + 2, "name": nm}]
            if w.random() < 0.6:
                first.append({"k": "raise", "id": sid[0] * 100 + 3, "base": w.random() < 0.35})
            block.append({"k": "ctx", "id": sid[0] * 100 + 4, "body": first, "catch": True})
            block.append({"k": "ctx", "id": sid[0] * 100 + 5, "catch": True,
                          "body": [{"k": "obs", "id": sid[0] * 100 + 6, "name": nm}]})
            continue
        if r < 0.05 and depth < 2:
            # the context manager used as a function decorator: every call of the helper opens a context of its
            # own; the helper re-enters itself `levels` times; the decorator object is private to this
            # statement or the one all threads of the run share
            body = _gen_block(w, depth + 1, budget, True, sid, tid, recent)
            block.append({"k": "ctxdec", "id": sid[0], "body": body, "levels": w.choice([0, 0, 1, 1, 2]),
                          "shared": w.random() < 0.5, "catch": w.random() < 0.6,
                          "after": [{"k": "obs", "id": sid[0] * 1000 + 7, "name": obs_name()}]})
        elif r < 0.28 and depth < 3:
            body = _gen_block(w, depth + 1, budget, True, sid, tid, recent)
            block.append({"k": "ctx", "id": sid[0], "body": body, "catch": w.random() < 0.6})
        elif r < 0.45 and allow_mut:
            nm = w.choice(MARK_NAMES)
            recent.append(nm)
            # "again": offer the rule that this thread added last once more (PennyLane rejects the duplicate
            # name half-way through add_decomps; the context must be as it was)
            block.append({"k": "add", "id": sid[0], "name": nm, "again": w.random() < 0.25})
        elif r < 0.58 and allow_mut:
            if w.random() < 0.4:
                block.append({"k": "fix", "id": sid[0], "name": "CRX", "real": w.randrange(4)})
            else:
                nm = w.choice(MARK_NAMES)
                recent.append(nm)
                block.append({"k": "fix", "id": sid[0], "name": nm})
        elif r < 0.80:
            block.append({"k": "obs", "id": sid[0], "name": obs_name()})
        elif r < 0.86 and depth > 0:
            block.append({"k": "raise", "id": sid[0], "base": w.random() < 0.35})
        elif r < 0.93:
            mode = w.choice(["plain", "fixed", "alt", "alt_bad", "fixed_bad"])
            block.append({"k": "decompose", "id": sid[0], "mode": mode, "rule": w.randrange(4),
                          "name": w.choice(MARK_NAMES)})
        elif depth > 0 and tid < 100:
            block.append({"k": "spawn", "id": sid[0],
                          "body": [{"k": "obs", "id": sid[0] * 1000 + j, "name": w.choice(MARK_NAMES + ["CRX"])}
                                   for j in range(w.randint(1, 3))]})
        else:
            block.append({"k": "obs", "id": sid[0], "name": obs_name()})
    return block


def gen_case(streams, tier):
    w, s = streams["workload"], streams["schedule"]
    nthreads = w.choice([2, 2, 3, 3, 4])
    heavy = w.random() < 0.25  # runs that include decompose statements are ~20x slower
    programs = []
    for t in range(nthreads):
        sid = [0]
        budget = [w.randint(3, 12)]
        prog = []
        recent = []
        while budget[0] > 0:
            prog.extend(_gen_block(w, 0, budget, False, sid, t, recent))
        if not heavy:
            prog = _strip(prog)
        programs.append(prog)
    level = "L0" if s.random() < 0.5 else "L2"
    preempt = []
    if level == "L2":
        for _ in range(s.randint(1, 3)):
            raw = s.random() < 0.3
            preempt.append([s.randrange(nthreads), "raw" if raw else "line",
                            s.randint(1, 3000) if raw else s.randint(1, 120)])
    return {
        "programs": programs,
        "level": level,
        "preempt": preempt,
        "policy": s.choice(["uniform", "uniform", "burst"]),
        "sched_seed": s.getrandbits(48),
        "choices": None,
    }


def _strip(block):
    out = []
    for st in block:
        if st["k"] == "decompose" and not st["mode"].endswith("_bad"):
            out.append({"k": "obs", "id": st["id"], "name": "CRX"})
        elif st["k"] in ("ctx", "ctxdec"):
            out.append(dict(st, body=_strip(st["body"])))
        else:
            out.append(st)
    return out


# ------------------------------------------------------------------------------------------------
# execution
# ------------------------------------------------------------------------------------------------


class _Model:
    """Per-thread stack of snapshots over the immutable global snapshot G0."""

    def __init__(self, g0):
        self.stack = [({k: list(v) for k, v in g0.items()}, {})]

    def push(self):
        d, f = self.stack[-1]
        self.stack.append(({k: list(v) for k, v in d.items()}, dict(f)))

    def pop(self):
        self.stack.pop()

    def view(self, name):
        d, f = self.stack[-1]
        if name in f:
            return [f[name]], f[name]
        return list(d[name]), None


def run_case(case):
    from simkit.baton import Coro, yield_point
    from simkit.core import HarnessError, Trace

    qp, dr = _ENV["qp"], _ENV["dr"]
    g0 = _ENV["g0"]
    trace = Trace(keep=False)
    violations = []
    counters = {"statements": 0, "observations": 0, "context_entries": 0, "exceptions_in_context": 0,
                "decompose_calls": 0, "spawned_threads": 0, "dup_name_errors": 0}
    coros: list = []
    open_ctx = {}  # coro name -> number of open local contexts (for the reach measure)
    sched = random.Random(case["sched_seed"])
    line_log = []
    preempt = {}
    for t, kind, idx in case["preempt"]:
        preempt.setdefault(t, {"line": [], "raw": []})[kind].append(idx)

    def viol(klass, sig, detail):
        if len(violations) < 5:
            violations.append({"klass": klass, "sig": sig, "detail": detail})

    shared_dec = [qp.decomposition.local_decomps()]  # one decorator object used by every thread of the run

    def make_thread(tname, prog, slot, is_child=False):
        model = _Model(g0)
        mk = [0]

        def observe(st, where):
            name = st["name"]
            counters["observations"] += 1
            exp_names, exp_fixed = model.view(name)
            try:
                got = [r.name for r in qp.list_decomps(name)]
                fx = dr.get_fixed_decomp(name)
                fx = fx.name if fx is not None else None
                has = qp.decomposition.has_decomp(name)
            except Exception as e:  # noqa: BLE001
                viol("unexpected_exception", {"stmt": "obs"},
                     {"thread": tname, "stmt": st["id"], "error": repr(e)[:200]})
                return
            trace.log("obs", tname, st["id"], got, fx)
            if got != exp_names or fx != exp_fixed or has != bool(exp_names):
                depth = len(model.stack) - 1
                foreign = [n for n in got if n.startswith("mk_") and n not in exp_names]
                viol("observation_mismatch",
                     {"where": "outside_all_contexts" if depth == 0 else "inside_context",
                      "foreign_rule_visible": bool(foreign), "child_thread": is_child},
                     {"thread": tname, "stmt": st["id"], "name": name, "depth": depth,
                      "expected": exp_names, "observed": got, "expected_fixed": exp_fixed,
                      "observed_fixed": fx})

        def run_block(block):
            for st in block:
                yield_point(("stmt", tname, st["id"]))
                counters["statements"] += 1
                k = st["k"]
                if k == "ctx":
                    try:
                        with qp.decomposition.local_decomps():
                            counters["context_entries"] += 1
                            model.push()
                            open_ctx[tname] = open_ctx.get(tname, 0) + 1
                            try:
                                run_block(st["body"])
                            finally:
                                model.pop()
                                open_ctx[tname] -= 1
                    except (Boom, BoomBase):
                        if not st["catch"]:
                            raise
                elif k == "ctxdec":
                    dec = shared_dec[0] if st["shared"] else qp.decomposition.local_decomps()
                    counters["decorator_form_calls"] = counters.get("decorator_form_calls", 0) + 1

                    @dec
                    def helper(level, _st=st):
                        counters["context_entries"] += 1
                        model.push()
                        open_ctx[tname] = open_ctx.get(tname, 0) + 1
                        try:
                            run_block(_st["body"] if level == _st["levels"] else [])
                            if level > 0:
                                helper(level - 1)
                            run_block(_st["after"])
                        finally:
                            model.pop()
                            open_ctx[tname] -= 1

                    try:
                        helper(st["levels"])
                    except (Boom, BoomBase):
                        if not st["catch"]:
                            raise
                    observe({"id": st["id"], "name": st["after"][0]["name"]}, None)
                elif k == "add":
                    if st.get("again") and mk[0] > 0:
                        rule = _ENV["markers"][slot * N_MARK + ((mk[0] - 1) % N_MARK)]
                    else:
                        rule = _ENV["markers"][slot * N_MARK + (mk[0] % N_MARK)]
                        mk[0] += 1
                    d, f = model.stack[-1]
                    try:
                        qp.add_decomps(st["name"], rule)
                        if rule.name in d[st["name"]]:
                            viol("missing_exception", {"stmt": "add"},
                                 {"thread": tname, "stmt": st["id"], "why": "duplicate rule name accepted"})
                        d[st["name"]].append(rule.name)
                    except ValueError as e:
                        if rule.name in d[st["name"]]:
                            counters["dup_name_errors"] += 1  # legitimately rejected duplicate
                        else:
                            viol("unexpected_exception", {"stmt": "add"},
                                 {"thread": tname, "stmt": st["id"], "error": repr(e)[:200],
                                  "model_view": d[st["name"]]})
                    trace.log("add", tname, st["id"], st["name"], rule.name)
                elif k == "fix":
                    if st["name"] == "CRX":
                        rule = _ENV["crx_rules"][st["real"]]
                    else:
                        rule = _ENV["markers"][slot * N_MARK + (mk[0] % N_MARK)]
                        mk[0] += 1
                    dr._fix_decomp(st["name"], rule)
                    model.stack[-1][1][st["name"]] = rule.name
                    trace.log("fix", tname, st["id"], st["name"], rule.name)
                elif k == "obs":
                    observe(st, None)
                elif k == "raise":
                    counters["exceptions_in_context"] += 1
                    trace.log("raise", tname, st["id"])
                    if st.get("base"):
                        counters["non_exception_faults"] = counters.get("non_exception_faults", 0) + 1
                        raise BoomBase()
                    raise Boom()
                elif k == "decompose":
                    counters["decompose_calls"] += 1
                    mode = st["mode"]
                    _, cur_fixed = model.view("CRX")
                    if mode.endswith("_bad"):
                        # the graph fills its private local context from the user's dictionaries; the second
                        # entry is rejected after the first one went in.  Nothing of it may remain visible.
                        mrule = _ENV["markers"][slot * N_MARK + (mk[0] % N_MARK)]
                        mk[0] += 1
                        tape = qp.tape.QuantumScript([qp.CRX(0.5, [0, 1])], [qp.expval(qp.Z(0))])
                        mark_cls = getattr(qp, st["name"])
                        if mode == "alt_bad":
                            kw = {"alt_decomps": {mark_cls: [mrule], qp.CRX: [_ENV["crx_rules"][st["rule"]]]}}
                        else:
                            kw = {"fixed_decomps": {mark_cls: mrule, qp.CRX: 5}}
                        try:
                            qp.transforms.decompose(tape, gate_set=set(GATE_SET), **kw)
                            viol("missing_exception", {"stmt": "decompose_" + mode}, {"thread": tname, "stmt": st["id"]})
                        except (ValueError, AttributeError, TypeError):
                            counters["rejected_graph_constructions"] = counters.get("rejected_graph_constructions", 0) + 1
                        trace.log("decompose_bad", tname, st["id"], mode)
                        observe({"id": st["id"], "name": st["name"]}, None)
                        observe({"id": st["id"], "name": "CRX"}, None)
                        continue
                    try:
                        if mode == "fixed":
                            got = _decompose(st["rule"], None)
                            exp = _ENV["expected_decompose"][st["rule"]]
                        elif mode == "alt":
                            got = _decompose(None, st["rule"])
                            exp = _ENV["expected_decompose"][("alt", st["rule"])]
                            if cur_fixed is not None:
                                names = [r.name for r in _ENV["crx_rules"]]
                                exp = _ENV["expected_decompose"][names.index(cur_fixed)]
                        else:
                            got = _decompose(None, None)
                            if cur_fixed is None:
                                exp = _ENV["expected_decompose"][None]
                            else:
                                names = [r.name for r in _ENV["crx_rules"]]
                                exp = _ENV["expected_decompose"][names.index(cur_fixed)]
                    except Exception as e:  # noqa: BLE001
                        viol("unexpected_exception", {"stmt": "decompose"},
                             {"thread": tname, "stmt": st["id"], "error": repr(e)[:300]})
                        continue
                    trace.log("decompose", tname, st["id"], got)
                    if got != exp:
                        viol("decompose_mismatch", {"mode": mode},
                             {"thread": tname, "stmt": st["id"], "expected": exp, "observed": got,
                              "own_fixed_rule": cur_fixed})
                    # the graph's internal context must be gone again
                    observe({"id": st["id"], "name": "CRX"}, None)
                elif k == "spawn":
                    counters["spawned_threads"] += 1
                    cname = f"{tname}.c{st['id']}"
                    child = make_thread(cname, st["body"], slot, is_child=True)
                    coros.append(child)
                    trace.log("spawn", tname, cname)

        def main():
            qp.decomposition.enable_graph()  # the switch is itself a ContextVar: per thread
            try:
                run_block(prog)
            except (Boom, BoomBase):
                pass
            # after everything: outside all contexts this thread sees exactly G0
            yield_point(("stmt", tname, "final"))
            for name in _ENV["names"]:
                got = [r.name for r in qp.list_decomps(name)]
                fx = dr.get_fixed_decomp(name)
                if got != g0[name] or fx is not None:
                    viol("leak_after_exit", {"where": "thread_end", "child_thread": is_child},
                         {"thread": tname, "name": name, "expected": g0[name], "observed": got,
                          "fixed": fx.name if fx is not None else None})
                    break

        p = preempt.get(slot if not is_child else -1, {"line": [], "raw": []})
        use_trace = case["level"] == "L2" and not is_child and (p["line"] or p["raw"])
        # The queuing stack is process-global by design (outside this property): never deschedule a
        # thread while it has a recording context open, or another thread's operators would land
        # in its queue and the end-to-end decompose comparison would blame the rule registry.
        return Coro(main, tname, trace_files=TRACE_FILES if use_trace else (),
                    preempt_at=p["line"], preempt_raw_at=p["raw"], line_log=line_log,
                    preempt_guard=lambda: not qp.QueuingManager.recording())

    for t, prog in enumerate(case["programs"]):
        coros.append(make_thread(f"T{t}", prog, t))

    # ---- the driver: decides every hand-off ------------------------------------------------------
    choices = case.get("choices")
    made = []
    steps = 0
    switches_in_ctx = 0
    prio = {}
    last = None
    try:
        while True:
            runnable = [c for c in coros if not c.done]
            if not runnable:
                break
            steps += 1
            if steps > 5000:
                raise HarnessError("driver step cap")
            if choices is not None and len(made) < len(choices):
                pick = min(choices[len(made)], len(runnable) - 1)
            elif case["policy"] == "burst":
                for c in runnable:
                    if c.name not in prio:
                        prio[c.name] = sched.random()
                if sched.random() < 0.12 and last is not None:
                    prio[last] = sched.random() * 0.01  # priority change point
                pick = max(range(len(runnable)), key=lambda i: prio[runnable[i].name])
            else:
                pick = sched.randrange(len(runnable))
            made.append(pick)
            c = runnable[pick]
            if last is not None and last != c.name and open_ctx.get(last, 0) > 0:
                switches_in_ctx += 1
            last = c.name
            c.resume()
            tag = c.last_tag if not c.done else ("end", c.name)
            trace.log("step", c.name, tag[1:] if tag and tag[0] in ("stmt", "line") else tag)
            if c.done and c.exc is not None:
                raise HarnessError(f"thread {c.name} crashed: {c.exc!r}") from c.exc
    finally:
        for c in coros:
            c.kill()
    # ---- global registry untouched ------------------------------------------------------------------
    snap = _registry_snapshot()
    if snap != _ENV["registry0"]:
        viol("global_registry_changed", {"where": "end_of_run"},
             {"expected": _ENV["registry0"], "observed": snap})
        # restore nothing: a later run in this worker would inherit the damage, so fail loudly
        _ENV["registry0_damaged"] = True
    counters["steps"] = steps
    counters["switches_with_open_context"] = switches_in_ctx
    counters["line_preemptions"] = len(line_log)
    counters["level:" + case["level"]] = 1
    counters["threads"] = len(coros)
    if counters["exceptions_in_context"]:
        counters["fault:exception_inside_context"] = counters["exceptions_in_context"]
    out_case = dict(case)
    out_case["choices"] = made
    return {
        "violations": violations,
        "digest": trace.digest(),
        "nontrivial": bool(switches_in_ctx or counters["exceptions_in_context"]),
        "counters": counters,
        "sim_time": float(steps),
        "case": out_case,
        "summary": {"steps": steps, "switches_with_open_context": switches_in_ctx,
                    "line_preemptions": line_log[:10]},
    }


def _stmts(block):
    n = 0
    for st in block:
        n += 1
        if st["k"] in ("ctx", "ctxdec"):
            n += _stmts(st["body"])
    return n


def _drop_variants(block):
    """Yield copies of `block` with one statement removed / one ctx unwrapped (deepest first)."""
    for i in range(len(block) - 1, -1, -1):
        st = block[i]
        yield block[:i] + block[i + 1:]
        if st["k"] in ("ctx", "ctxdec"):
            for b in _drop_variants(st["body"]):
                if b:
                    yield block[:i] + [dict(st, body=b)] + block[i + 1:]
        if st["k"] == "ctxdec" and (st["levels"] or st["shared"]):
            yield block[:i] + [dict(st, levels=0, shared=False)] + block[i + 1:]


def shrink_candidates(case):
    progs = case["programs"]
    base = dict(case, choices=None)
    # fewer threads
    if len(progs) > 1:
        for i in range(len(progs)):
            yield dict(base, programs=progs[:i] + progs[i + 1:],
                       preempt=[[t - (t > i), k, x] for t, k, x in case["preempt"] if t != i])
    # fewer statements
    for i, p in enumerate(progs):
        for q in _drop_variants(p):
            yield dict(base, programs=progs[:i] + [q] + progs[i + 1:])
    # simpler schedule
    if case["preempt"]:
        for i in range(len(case["preempt"])):
            yield dict(base, preempt=case["preempt"][:i] + case["preempt"][i + 1:])
    if case["level"] == "L2" and not case["preempt"]:
        yield dict(base, level="L0")
    if case["policy"] != "uniform":
        yield dict(base, policy="uniform")
    # explicit choice list: prefer always running the first runnable thread
    ch = case.get("choices")
    if ch and any(ch):
        yield dict(case, choices=[0] * len(ch))
        for i in range(len(ch)):
            if ch[i]:
                yield dict(case, choices=ch[:i] + [0] + ch[i + 1:])
