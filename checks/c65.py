"""C65 -- executor backends behave like the built-in call / map / itertools.starmap.

Real code: PyNativeExec.submit/map/starmap/__init__/shutdown/_get_backend, MPPoolExec.map,
SerialExec + StdLibBackend, the `_exec_backend` classmethods, create_executor/get_executor,
ExecBackendConfig dispatch, RemoteExec.__call__/__enter__/__exit__, stdlib Executor.map.
Stub: the three stdlib pool classes (simkit.simpool), installed through the module attributes
`conc_futures.ThreadPoolExecutor/ProcessPoolExecutor/get_context` and `multiproc.get_context`.
"""
from __future__ import annotations

import itertools
from functools import partial

ID = "C65"
LEVEL = "exploration"
TIERS = {
    "quick": {"runs": 24_000, "wall": 75, "chunk": 250, "shrink_s": 30, "run_cap_s": 120},
    "thorough": {"runs": 3_000_000, "wall": 840, "chunk": 1000, "shrink_s": 90, "run_cap_s": 120},
}
RULE = (
    "one run = one executor (backend x constructor x max_workers 1-16 x persist) driven through a "
    "history of 1-8 submit/map/starmap/functor/shutdown operations over a library of picklable pure "
    "functions; every task gets a seeded heavy-tailed virtual duration so completion order is a "
    "seeded permutation bounded by the worker count. distinct = distinct trace digest (start/done "
    "event sequence + per-op verdicts); non-trivial = the run had at least one pair of tasks that "
    "completed in the opposite order to their start order, or at least one injected fault fired."
)
SIM_TIME_NOTE = "virtual time units; only orders worker completion events (no clock in the code under test)"
REAL = [
    "pennylane.concurrency.executors.native.api.PyNativeExec (submit/map/starmap/shutdown)",
    "ThreadPoolExec, ProcPoolExec, MPPoolExec (incl. its map override), SerialExec, StdLibBackend",
    "create_executor / get_executor / ExecBackends", "RemoteExec.__call__/__enter__/__exit__",
    "concurrent.futures.Executor.map, Future, wait/as_completed (stdlib, unmodified)",
]
STUBBED = [
    "concurrent.futures.ThreadPoolExecutor -> simkit.SimThreadPool",
    "concurrent.futures.ProcessPoolExecutor -> simkit.SimProcPool (pickle boundary kept)",
    "multiprocessing.get_context('spawn').Pool -> simkit.SimMPPool (stdlib chunking formula, pickle boundary kept)",
]
NOT_INJECTED = [
    "clock skew / timeouts: no clock or timeout on this path",
    "network faults: single-process library",
    "worker death under multiprocessing.Pool: the real Pool hangs forever on a lost task; no behaviour is promised",
]
ASSUMPTIONS = [
    "SimPool models FIFO dequeue, <=W tasks in flight and arbitrary completion times; re-import isolation of spawned workers is not modelled",
    "task functions are pure, so executing a task body atomically at its start event loses no behaviour",
    "exception *type* is not compared (MPPoolExec.map deliberately re-wraps errors); only raise-vs-return and the returned value are",
]

_ENV = {}


def preimport():
    import pennylane.concurrency.executors.native.conc_futures  # noqa: F401


def setup():
    import numpy as np  # noqa: F401
    import pennylane.concurrency.executors.native.conc_futures as m_cf
    import pennylane.concurrency.executors.native.multiproc as m_mp
    from pennylane.concurrency.executors import backends

    from checks import fnlib
    from simkit import simpool

    simpool.patch_stdlib()

    class _Ctx:
        def __init__(self, method):
            self.method = method
            self.Pool = simpool.SimMPPool

    m_cf.ThreadPoolExecutor = simpool.SimThreadPool
    m_cf.ProcessPoolExecutor = simpool.SimProcPool
    m_cf.get_context = _Ctx
    m_mp.get_context = _Ctx
    _ENV.update(backends=backends, fnlib=fnlib, simpool=simpool, np=np)


BACKENDS = ["serial", "cf_threadpool", "cf_procpool", "mp_pool"]
ENUM_NAME = {"serial": "Serial", "cf_threadpool": "CF_ThreadPool", "cf_procpool": "CF_ProcPool",
             "mp_pool": "MP_Pool"}
SIZES = [0, 1, 1, 2, 2, 3, 3, 4, 5, 6, 8, 8, 11, 13, 16, 21, 34, 64]
SAFE_FNS = ["f1_sq", "f1_tag", "f2_lin", "f2_kw", "f2_arr", "f2_kwonly", "f3", "f3_kw",
            "f2_lin", "f3", "f2_arr"]


def gen_case(streams, tier):
    from checks import fnlib

    w, s, f = streams["workload"], streams["schedule"], streams["fault"]
    backend = w.choice(["serial", "cf_threadpool", "cf_threadpool", "cf_threadpool", "cf_procpool",
                        "cf_procpool", "cf_procpool", "mp_pool", "mp_pool", "mp_pool"])
    fault_kinds = []
    if f.random() < 0.35:
        for k in ("task_raise", "uneven", "unpicklable", "worker_death"):
            if f.random() < 0.5:
                fault_kinds.append(k)
    case = {
        "backend": backend,
        "ctor": w.choice(["create_str", "create_enum", "class", "get_executor"]),
        "max_workers": 1 if backend == "serial" else w.choice([1, 2, 2, 3, 4, 5, 8, 16, w.randint(1, 16)]),
        "persist": w.random() < 0.3,
        "use_with": w.random() < 0.3,
        "fault_kinds": fault_kinds,
        "ops": [],
        "sched_seed": s.getrandbits(48),
        "durations": None,
    }
    n_ops = w.randint(1, 8)
    for oi in range(n_ops):
        if w.random() < 0.07:
            case["ops"].append({"api": "shutdown"})
            continue
        api = w.choice(["submit", "map", "map", "map", "starmap", "starmap", "starmap"])
        fn = w.choice(SAFE_FNS)
        if "task_raise" in fault_kinds and f.random() < 0.5:
            fn = f.choice(["f1_raise", "f2_raise"])
        if "unpicklable" in fault_kinds and f.random() < 0.3:
            fn = "lambda2"
        if "worker_death" in fault_kinds and backend == "cf_procpool" and f.random() < 0.4:
            fn = "f2_die"
        npos, kwargs = w.choice(fnlib.SHAPES[fn])
        n = 1 if api == "submit" else w.choice(SIZES)
        base = (oi + 1) * 1000
        cols = [[base + 10 * i + j for i in range(n)] for j in range(npos)]
        if fn in ("f1_tag", "f2_kw", "f3_kw") and w.random() < 0.15:
            # equal-but-distinguishable arguments, repeated within one call (0 == 0.0 == -0.0 == False, 1 == 1.0
            # == True): every item is its own task, whatever compares equal to it
            look = [0, 0.0, -0.0, False, 1, 1.0, True, 2, 2.0]
            cols = [[w.choice(look) for _ in range(n)] for _ in range(npos)]
        if fn == "f2_die" and n:
            cols[0][w.randrange(n)] = 13
        if "uneven" in fault_kinds and api != "submit" and npos > 1 and n > 1 and f.random() < 0.5:
            j = f.randrange(npos)
            cols[j] = cols[j][: f.randrange(0, n)]
        # how the callable object comes about: the module-level function itself, or a short-lived object made
        # for this one call and dropped afterwards (same signature, same results) -- an executor must not
        # remember anything about a callable beyond the call
        wrap = w.choice(["module", "module", "partial", "closure"])
        if wrap == "closure" and (backend in ("cf_procpool", "mp_pool") or fn in ("lambda2", "f2_die")):
            wrap = "partial"
        op = {"api": api, "via": w.choice(["method", "method", "functor"]), "fn": fn,
              "kwargs": dict(kwargs), "wrap": wrap, "iter": w.choice(["list", "list", "tuple", "generator"])}
        if api == "submit":
            op["args"] = [c[0] for c in cols]
        elif api == "map":
            op["args"] = cols
        else:
            if any(len(c) != n for c in cols):  # uneven starmap: rows of different width
                m = max(len(c) for c in cols)
                op["args"] = [[c[i] for c in cols if i < len(c)] for i in range(m)]
            else:
                op["args"] = [[c[i] for c in cols] for i in range(n)]
        case["ops"].append(op)
    return case


# ------------------------------------------------------------------------------------------------


def same(a, b):
    np = _ENV["np"]
    if isinstance(a, np.ndarray) or isinstance(b, np.ndarray):
        return (isinstance(a, np.ndarray) and isinstance(b, np.ndarray) and a.dtype == b.dtype
                and a.shape == b.shape and bool(np.array_equal(a, b)))
    if type(a) is not type(b):
        return False
    if isinstance(a, (list, tuple)):
        return len(a) == len(b) and all(same(x, y) for x, y in zip(a, b))
    if isinstance(a, float):
        return repr(a) == repr(b)  # 0.0 and -0.0 are different results
    return a == b


def brief(x, depth=0):
    np = _ENV["np"]
    if isinstance(x, np.ndarray):
        return {"ndarray": x.tolist()}
    if isinstance(x, (list, tuple)):
        if len(x) > 12 and depth == 0:
            return [brief(v, 1) for v in x[:12]] + [f"...(+{len(x) - 12})"]
        return [brief(v, depth + 1) for v in x]
    return x if isinstance(x, (int, float, str, bool, type(None))) else repr(x)


def _key(v):
    return repr(brief(v))


def reference(op):
    """What the built-in call / map / itertools.starmap gives on the same function and arguments."""
    fnlib, simpool = _ENV["fnlib"], _ENV["simpool"]
    fn = partial(fnlib.FNS[op["fn"]], **op["kwargs"])
    api = op["api"]
    try:
        if api == "submit":
            return ("value", fn(*op["args"]))
        if api == "map":
            return ("value", list(map(fn, *op["args"])))
        return ("value", list(itertools.starmap(fn, [tuple(r) for r in op["args"]])))
    except simpool.SimWorkerDeath:
        return ("death", None)
    except Exception as e:  # noqa: BLE001
        return ("raise", type(e).__name__)


def make_executor(case):
    be = _ENV["backends"]
    kw = {"max_workers": case["max_workers"], "persist": case["persist"]}
    name = case["backend"]
    ctor = case["ctor"]
    if ctor == "create_str":
        return be.create_executor(name, **kw)
    if ctor == "create_enum":
        return be.create_executor(getattr(be.ExecBackends, ENUM_NAME[name]), **kw)
    if ctor == "get_executor":
        return be.get_executor(name)(**kw)
    return be.get_supported_backends()[name](**kw)


def _temporary(fn, how):
    """A fresh callable object with fn's signature and behaviour."""
    import inspect

    if how == "partial":
        return partial(fn)
    if how == "closure":
        params = list(inspect.signature(fn).parameters.values())
        if any(p_.kind not in (p_.POSITIONAL_OR_KEYWORD, p_.KEYWORD_ONLY) for p_ in params):
            return partial(fn)
        pos = [p_ for p_ in params if p_.kind == p_.POSITIONAL_OR_KEYWORD]
        kwo = [p_ for p_ in params if p_.kind == p_.KEYWORD_ONLY]
        ns = {"_fn": fn, "_d": {p_.name: p_.default for p_ in params if p_.default is not p_.empty}}
        sig = ", ".join(p_.name + (f"=_d['{p_.name}']" if p_.default is not p_.empty else "") for p_ in pos)
        if kwo:
            sig += ", *, " + ", ".join(p_.name + (f"=_d['{p_.name}']" if p_.default is not p_.empty else "") for p_ in kwo)
        callargs = ", ".join([p_.name for p_ in pos] + [f"{p_.name}={p_.name}" for p_ in kwo])
        exec(f"def _tmp({sig}):\n    return _fn({callargs})\n", ns)  # noqa: S102 - fixed template
        return ns["_tmp"]
    return fn


def call(ex, op):
    fnlib = _ENV["fnlib"]
    fn = _temporary(fnlib.FNS[op["fn"]], op.get("wrap", "module"))
    api, kwargs = op["api"], op["kwargs"]
    how = op.get("iter", "list")

    def as_iter(seq):
        # built-in map / starmap accept any iterable
        if how == "tuple":
            return tuple(seq)
        if how == "generator":
            return (x for x in seq)
        return list(seq)

    if api == "submit":
        args = tuple(op["args"])
    elif api == "map":
        args = tuple(as_iter(c) for c in op["args"])
    else:
        args = (as_iter([tuple(r) for r in op["args"]]),)
    if op["via"] == "functor":
        return ex(api, fn, *args, **kwargs)
    return getattr(ex, api)(fn, *args, **kwargs)


def run_case(case):
    import inspect

    from simkit.core import Sim, Trace
    import random

    simpool, fnlib = _ENV["simpool"], _ENV["fnlib"]
    trace = Trace(keep=False)
    sim = Sim(trace)
    ps = simpool.PoolSim(sim, sched_rng=random.Random(case["sched_seed"]),
                         durations=case.get("durations"), mode="l0")
    simpool.install(ps)
    violations = []
    counters = {"ops": 0, "runs_with_faults": 0}
    summary = []
    fired = set()
    broken = False
    try:
        ex = make_executor(case)
        ctx = ex.__enter__() if case["use_with"] else ex
        for oi, op in enumerate(case["ops"]):
            if op["api"] == "shutdown":
                ex.shutdown()
                trace.log("op", oi, "shutdown")
                continue
            counters["ops"] += 1
            counters["api:" + op["api"]] = counters.get("api:" + op["api"], 0) + 1
            if op.get("wrap", "module") != "module":
                counters["temporary_callables"] = counters.get("temporary_callables", 0) + 1
            exp_kind, exp = reference(op)
            fn = fnlib.FNS[op["fn"]]
            nparams = len(inspect.signature(fn).parameters)
            widths = {len(c) for c in op["args"]} if op["api"] != "submit" and op["args"] and isinstance(op["args"][0], list) else set()
            uneven = len(widths) > 1
            unpicklable = op["fn"] == "lambda2" and case["backend"] in ("cf_procpool", "mp_pool")
            sig = {"api": op["api"], "backend": case["backend"], "fn_params": nparams,
                   "has_kwargs": bool(op["kwargs"]), "via": op["via"]}
            n_before = ps.task_seq
            try:
                got = ("value", call(ctx, op))
            except Exception as e:  # noqa: BLE001 - observation, compared with the reference
                got = ("raise", type(e).__name__, str(e)[:200])
            if exp_kind == "raise":
                fired.add("task_raise")
            if exp_kind == "death":
                fired.add("worker_death")
            if uneven:
                fired.add("uneven")
            if unpicklable:
                fired.add("unpicklable")
            verdict = "ok"
            detail = None
            if exp_kind == "value":
                if got[0] == "value":
                    if not same(got[1], exp):
                        verdict = "wrong_result"
                        sub = "wrong_value"
                        if isinstance(got[1], list) and isinstance(exp, list):
                            if len(got[1]) != len(exp):
                                sub = "wrong_length"
                            elif sorted(map(_key, got[1])) == sorted(map(_key, exp)):
                                sub = "misordered"
                        elif op["api"] != "submit":
                            sub = "not_a_list"
                        sig["sub"] = sub
                        detail = {"op": op, "expected": brief(exp), "observed": brief(got[1])}
                else:
                    allowed = uneven or unpicklable or (broken and got[1] == "BrokenProcessPool")
                    if not allowed:
                        verdict = "unexpected_exception"
                        detail = {"op": op, "expected": brief(exp), "raised": got[1:], }
            else:  # builtin raises / worker dies: the executor must not return a value
                if got[0] == "value":
                    verdict = "missing_exception"
                    detail = {"op": op, "expected": [exp_kind, exp], "observed": brief(got[1])}
                elif exp_kind == "death":
                    broken = case["persist"] or broken
            trace.log("op", oi, op["api"], verdict, ps.task_seq - n_before)
            summary.append(verdict)
            if verdict != "ok":
                violations.append({"klass": verdict, "sig": sig, "detail": detail})
        if case["use_with"]:
            ex.__exit__(None, None, None)
        sim.drain()
    finally:
        ps.cleanup()
        simpool.install(None)
    inv = ps.inversions()
    counters["tasks"] = ps.task_seq
    counters["out_of_order_pairs"] = inv
    counters["runs_out_of_order"] = 1 if inv else 0
    counters["max_in_flight_sum"] = ps.max_in_flight
    counters["pools_created"] = ps.pools_created
    counters["mp_chunks"] = ps.chunks
    if ps.timeouts_armed:
        counters["deadlines_on_virtual_clock"] = ps.timeouts_armed
        counters["deadlines_expired"] = ps.timeouts_expired
    for k in fired:
        counters["fault:" + k] = 1
    if fired:
        counters["runs_with_faults"] = 1
    counters["backend:" + case["backend"]] = 1
    out_case = dict(case)
    out_case["durations"] = list(ps.drawn)
    return {
        "violations": violations,
        "digest": trace.digest(),
        "nontrivial": bool(inv) or bool(fired),
        "counters": counters,
        "sim_time": sim.now,
        "case": out_case,
        "summary": {"verdicts": summary, "completion_order": ps.completion_order[:40],
                    "start_order": ps.start_order[:40]},
    }


def shrink_candidates(case):
    from simkit.runner import shrink_list

    # fewer operations
    for ops in shrink_list(case["ops"], 1):
        yield dict(case, ops=ops)
    # simpler configuration
    if case["use_with"]:
        yield dict(case, use_with=False)
    if case["persist"]:
        yield dict(case, persist=False)
    if case["ctor"] != "create_str":
        yield dict(case, ctor="create_str")
    for mw in (1, 2):
        if case["max_workers"] > mw:
            yield dict(case, max_workers=mw)
    # smaller argument lists / simpler ops
    for i, op in enumerate(case["ops"]):
        if op["api"] in ("map", "starmap"):
            if op["api"] == "map":
                n = max((len(c) for c in op["args"]), default=0)
                for m in (n // 2, n - 1):
                    if 0 <= m < n:
                        new = dict(op, args=[c[:m] for c in op["args"]])
                        yield dict(case, ops=case["ops"][:i] + [new] + case["ops"][i + 1:])
            else:
                n = len(op["args"])
                for m in (n // 2, n - 1):
                    if 0 <= m < n:
                        new = dict(op, args=op["args"][:m])
                        yield dict(case, ops=case["ops"][:i] + [new] + case["ops"][i + 1:])
        if op.get("via") == "functor":
            new = dict(op, via="method")
            yield dict(case, ops=case["ops"][:i] + [new] + case["ops"][i + 1:])
    # simpler schedule: all durations equal, then individual durations -> 1.0
    d = case.get("durations")
    if d:
        if any(x != 1.0 for x in d):
            yield dict(case, durations=[1.0] * len(d))
            for i in range(len(d)):
                if d[i] != 1.0:
                    yield dict(case, durations=d[:i] + [1.0] + d[i + 1:])


# ------------------------------------------------------------------------------------------------
# conformance: the same histories on the REAL stdlib pools (never decides, never alarms)
# ------------------------------------------------------------------------------------------------


def conformance(root_seed, tier):
    """Replay a few fault-free histories on the real ThreadPoolExecutor / ProcessPoolExecutor(spawn) /
    multiprocessing.Pool(spawn) and compare value-vs-raise and values with what the simulated pools gave.
    Uses only schedule-independent oracles, so it can miss a bug but cannot raise a false alarm: a
    disagreement is reported in the evidence as `disagreements`, not as a violation."""
    import concurrent.futures as cf
    import multiprocessing
    import os

    import pennylane.concurrency.executors.native.conc_futures as m_cf
    import pennylane.concurrency.executors.native.multiproc as m_mp

    from simkit.core import Streams, derive_seed

    sim_names = (m_cf.ThreadPoolExecutor, m_cf.ProcessPoolExecutor, m_cf.get_context, m_mp.get_context)
    want = {"quick": {"cf_threadpool": 6, "cf_procpool": 1, "mp_pool": 1},
            "thorough": {"cf_threadpool": 30, "cf_procpool": 5, "mp_pool": 5}}[tier]
    done = {k: 0 for k in want}
    validated = 0
    disagreements = []
    os.environ["VERIF_REAL_POOL"] = "1"
    idx = 0
    try:
        while any(done[k] < want[k] for k in want) and idx < 5000:
            case = gen_case(Streams(derive_seed(root_seed, "C65-conformance", idx)), tier)
            idx += 1
            b = case["backend"]
            if b not in want or done[b] >= want[b] or case["fault_kinds"]:
                continue
            case = dict(case, max_workers=min(case["max_workers"], 3), ops=case["ops"][:3])
            sim_res = run_case(case)
            sim_verdicts = sim_res["summary"]["verdicts"]
            # real pools
            m_cf.ThreadPoolExecutor, m_cf.ProcessPoolExecutor = cf.ThreadPoolExecutor, cf.ProcessPoolExecutor
            m_cf.get_context = m_mp.get_context = multiprocessing.get_context
            try:
                ex = make_executor(case)
                real_verdicts = []
                for op in case["ops"]:
                    if op["api"] == "shutdown":
                        ex.shutdown()
                        continue
                    exp_kind, exp = reference(op)
                    try:
                        got = ("value", call(ex, op))
                    except Exception as e:  # noqa: BLE001
                        got = ("raise", type(e).__name__)
                    if exp_kind == "value" and got[0] == "value":
                        real_verdicts.append("ok" if same(got[1], exp) else "wrong_result")
                    elif exp_kind == "value":
                        real_verdicts.append("unexpected_exception")
                    else:
                        real_verdicts.append("ok" if got[0] == "raise" else "missing_exception")
                ex.shutdown()
            finally:
                (m_cf.ThreadPoolExecutor, m_cf.ProcessPoolExecutor, m_cf.get_context, m_mp.get_context) = sim_names
            done[b] += 1
            if real_verdicts == sim_verdicts:
                validated += 1
            else:
                disagreements.append({"backend": b, "sim": sim_verdicts, "real": real_verdicts,
                                      "ops": [[o.get("api"), o.get("fn")] for o in case["ops"]]})
    finally:
        os.environ.pop("VERIF_REAL_POOL", None)
        (m_cf.ThreadPoolExecutor, m_cf.ProcessPoolExecutor, m_cf.get_context, m_mp.get_context) = sim_names
    return {"validated": validated, "histories_by_backend": done, "disagreements": disagreements[:5],
            "note": "per-operation verdicts (ok / wrong_result / unexpected_exception / missing_exception) of the "
                    "same history on the real stdlib pools vs the simulated pools"}
