"""C05 -- result caching never changes results (analytic execution).

Real code: _cache_transform, QuantumScript.hash, Operator.__hash__ (+ _canonicalize_dynamic /
_process_data), qp.execute, QNode(cache=...), _setup_transform_program, default.qubit analytic
execution, cachetools.LRUCache when cache=True.
Stub: the user-supplied cache object (simkit.SimCache: unbounded / LRU(k) / random eviction).
"""
from __future__ import annotations

import math
import random

ID = "C05"
LEVEL = "exploration"
TIERS = {
    "quick": {"runs": 3000, "wall": 150, "chunk": 100, "shrink_s": 40, "run_cap_s": 120},
    "thorough": {"runs": 800_000, "wall": 840, "chunk": 100, "shrink_s": 120, "run_cap_s": 120},
}
RULE = (
    "one run = one cache store (cache=True with a drawn cachesize | unbounded SimCache | LRU SimCache of "
    "capacity 1..8 | randomly evicting SimCache) shared by a history of 1-4 qp.execute / QNode calls on "
    "batches of 1-8 analytic tapes drawn from base circuits and near-duplicate mutators (parameter +-2pi/"
    "+-4pi, wire relabelling, trainable indices, adjoint/pow/ctrl wrappers, measurement changes incl. "
    "state/density_matrix/probs wire order, exact duplicates); every result is compared with cache=False on "
    "a fresh device. distinct = distinct digest of (store, hit/miss/evict event sequence, results); "
    "non-trivial = at least one cache hit, in-batch duplicate or eviction happened."
)
SIM_TIME_NOTE = "no clock on this path; simulated time is not meaningful (0)"
REAL = ["pennylane.workflow._cache_transform", "QuantumScript.hash", "Operator2.__hash__/_canonicalize_dynamic",
        "qp.execute, QNode, _setup_transform_program, run", "default.qubit analytic simulation",
        "cachetools.LRUCache (cache=True)"]
STUBBED = ["user-supplied cache mapping -> simkit.SimCache (policy unbounded | lru(k) | random eviction)"]
NOT_INJECTED = [
    "finite shots: the property is about analytic execution",
    "concurrent access to one cache from several threads: the property quantifies over inputs and histories, not schedules",
    "parameters closer than 1e-9: the hash deliberately rounds to 10 decimals, and results then agree within the comparison tolerance",
]
ASSUMPTIONS = [
    "results are compared with tolerance 1e-9 (state vectors entry-wise, not up to phase)",
    "under a user-supplied evicting cache (LRU/random SimCache) a lookup that fails because the entry was evicted may raise; it may never return a different value. With cache=True the LRU cache is PennyLane's own, so an exception there is reported",
]

_ENV = {}
TWO_PI = round(2 * math.pi, 12)


def preimport():
    setup()


def setup():
    if _ENV.get("ready"):
        return
    import warnings

    import numpy as np
    import pennylane as qp

    from checks import qgen
    from simkit import simcache

    warnings.filterwarnings("ignore")
    _ENV.update(qp=qp, np=np, qgen=qgen, simcache=simcache)
    dev = qp.device("default.qubit", wires=2)
    t = qp.tape.QuantumScript([qp.RX(0.1, 0), qp.CNOT([0, 1])], [qp.expval(qp.Z(0))])
    qp.execute([t, t], dev, diff_method=None, cache=True)
    _ENV["ready"] = True
    from simkit.core import Streams, derive_seed

    try:
        for i in range(150):  # warm lazily imported paths once, before workers are forked
            # (numpy parameters only: torch and jax are imported lazily in the workers, after the fork)
            run_case(dict(gen_case(Streams(derive_seed("warm", i)), "quick"), iface="numpy", diff=None))
    except Exception:  # noqa: BLE001 - warm-up only
        pass


# ------------------------------------------------------------------------------------------------
# generation
# ------------------------------------------------------------------------------------------------

ROT1 = ["RX", "RY", "RZ", "PhaseShift", "U1"]


def _arr_op(w, wires, big=False):
    """An operator with an array-valued parameter.  `big`: more than 1000 entries (numpy abbreviates the
    printed form of such arrays with '...')."""
    n = len(wires)
    if big:
        if n >= 10:
            name, ws = w.choice(["DiagonalQubitUnitary", "StatePrep"]), wires[:10]
        else:
            name, ws = "QubitUnitary", w.sample(wires, 5)
    else:
        name = w.choice(["QubitUnitary", "QubitUnitary", "DiagonalQubitUnitary", "StatePrep"])
        ws = wires[:] if name == "StatePrep" else w.sample(wires, w.randint(1, min(3, n)))
    return [name, ws, [{"seed": w.getrandbits(24), "bumps": []}]]


def _gen_base(w, n, big=False):
    from checks import qgen

    wires = list(range(n))
    ops = []
    if w.random() < (1.0 if big else 0.12):
        ops.append(_arr_op(w, wires, big and (n >= 10 or w.random() < 0.6)))
        if ops[-1][0] != "StatePrep" and w.random() < 0.5:
            ops.insert(0, ["Hadamard", [w.choice(wires)], []])
    for _ in range(w.randint(1, 3) if big else w.randint(2, 6)):
        k = w.random()
        if k < 0.35:
            ops.append([w.choice(ROT1), [w.choice(wires)], [qgen.rand_angle(w)]])
        elif k < 0.45:
            ops.append(["Rot", [w.choice(wires)], [qgen.rand_angle(w) for _ in range(3)]])
        elif k < 0.52:
            ops.append(["U3", [w.choice(wires)], [qgen.rand_angle(w) for _ in range(3)]])
        elif k < 0.57:
            ops.append(["U2", [w.choice(wires)], [qgen.rand_angle(w) for _ in range(2)]])
        elif k < 0.67:
            ops.append([w.choice(qgen.G1), [w.choice(wires)], []])
        elif k < 0.8 and n > 1:
            ops.append([w.choice(qgen.G2), w.sample(wires, 2), []])
        elif k < 0.9 and n > 1:
            ops.append([w.choice(qgen.P2 + ["CRot"]), w.sample(wires, 2), None])
            nm = ops[-1][0]
            ops[-1][2] = [qgen.rand_angle(w) for _ in range(3 if nm == "CRot" else 1)]
        else:
            ops.append(_wrap(w, [w.choice(ROT1), [wires[0]], [qgen.rand_angle(w)]], wires))
    if n > 1 and w.random() < 0.2:
        a, b = w.sample(wires, 2)
        ops.insert(w.randrange(len(ops) + 1), ["prodop", [w.choice(ROT1), [a], [qgen.rand_angle(w)]],
                                               [w.choice(ROT1), [b], [qgen.rand_angle(w)]]])
    mps = _gen_mps(w, wires, big)
    return {"ops": ops, "mps": mps, "shots": None, "trainable": None}


def _wrap(w, opspec, wires):
    from checks import qgen

    k = w.random()
    used = qgen.op_wires(opspec)
    free = [x for x in wires if x not in used]
    if k < 0.3:
        return ["adjoint", opspec]
    if k < 0.6:
        return ["pow", opspec, w.choice([0.5, 2, 3, -1, 1.5])]
    if free:
        nc = w.randint(1, min(2, len(free)))
        ctrl = w.sample(free, nc)
        vals = [w.randint(0, 1) for _ in ctrl] if w.random() < 0.3 else None
        return ["ctrl", opspec, ctrl, vals]
    return ["adjoint", opspec]


def _gen_mps(w, wires, big=False):
    from checks import qgen

    mps = []
    k = w.random()
    if big and k < 0.5 and len(wires) < 10:
        # observables given by large arrays: a dense Hermitian of 1024 entries, a sparse Hamiltonian with
        # more than 50 stored entries (scipy abbreviates its printed form beyond that)
        if w.random() < 0.5 or len(wires) < 6:
            return [["expval", ["HB", w.getrandbits(24), w.sample(wires, 5), []]]]
        return [["expval", ["SPH", w.getrandbits(24), w.sample(wires, 6), []]]]
    if k < 0.25:
        return [["state"]]
    if k < 0.33:
        return [["density_matrix", sorted(w.sample(wires, w.randint(1, min(4, len(wires)))))]]
    for _ in range(w.randint(1, 2)):
        r = w.random()
        if r < 0.08:
            mps.append(["expval", ["HB", w.getrandbits(24), w.sample(wires, w.randint(1, min(2, len(wires)))), []]])
        elif r < 0.5:
            mps.append(["expval", qgen.gen_obs(w, wires)])
        elif r < 0.65:
            mps.append(["var", qgen.gen_pauli_word(w, wires)])
        else:
            ws = w.sample(wires, w.randint(1, len(wires)))  # unsorted on purpose: wire order matters
            mps.append(["probs", ws])
    return mps


def _param_sites(ops, path=()):
    """Yield (path, opspec) of every leaf op that carries parameters."""
    for i, o in enumerate(ops):
        yield from _param_sites_op(o, path + (i,))


def _param_sites_op(o, path):
    if o[0] == "prodop":
        yield from _param_sites_op(o[1], path + ("a",))
        return
    if o[0] in ("adjoint", "pow", "ctrl"):
        yield from _param_sites_op(o[1], path + ("w",))
    elif o[2]:
        yield path, o


def _replace_leaf(o, fn):
    if o[0] == "prodop":
        return ["prodop", _replace_leaf(o[1], fn), o[2]]
    if o[0] in ("adjoint", "pow", "ctrl"):
        return [o[0], _replace_leaf(o[1], fn)] + list(o[2:])
    return fn(o)


def _mutate(w, tape, n):
    """A near-duplicate of `tape` (new spec) and the name of the mutator used."""
    from checks import qgen

    t = {"ops": [list(o) for o in tape["ops"]], "mps": [list(m) for m in tape["mps"]], "shots": None,
         "trainable": tape.get("trainable")}
    wires = list(range(n))
    all_sites = list(_param_sites(t["ops"]))
    sites = [(pth, leaf) for pth, leaf in all_sites if all(isinstance(x, (int, float)) for x in leaf[2])]
    arr_sites = [(pth, leaf) for pth, leaf in all_sites if isinstance(leaf[2][0], dict)]
    arr_obs = [i for i, m in enumerate(t["mps"]) if m[0] == "expval" and m[1][0] in ("HB", "SPH")]
    kind = w.choice(["dup", "shift", "shift", "shift", "relabel", "trainable", "wrap", "unwrap",
                     "measure", "measure", "delta", "swapops", "rename", "wrap_shift", "ctrl_perm", "obs_delta", "as_batch1"])
    multi_ctrl = [i for i, o in enumerate(t["ops"]) if o[0] == "ctrl" and len(o[2]) >= 2]
    if multi_ctrl and w.random() < 0.5:
        kind = "ctrl_perm"
    if (arr_sites or arr_obs) and w.random() < 0.6:
        kind = "arr_bump"
    if kind == "dup":
        return t, kind
    if kind == "as_batch1":
        # the same value handed over as a one-element array: a parameter broadcast of size one, whose results
        # carry an extra leading axis
        if sites:
            path, leaf = w.choice(sites)
            j = w.randrange(len(leaf[2]))

            def fn_b(o):
                p_ = list(o[2])
                p_[j] = [p_[j]]
                return [o[0], o[1], p_]

            t["ops"][path[0]] = _replace_leaf(t["ops"][path[0]], fn_b)
        return t, kind
    if kind == "obs_delta":
        # the same circuit, one coefficient of the measured observable changed a little
        cands = [i for i, m in enumerate(t["mps"]) if m[0] in ("expval", "var") and m[1][0] in ("L", "SP")]
        if cands:
            i = w.choice(cands)
            ob = t["mps"][i][1]
            dl = w.choice([1e-3, -0.25, 1e-5, 1e-7])
            if ob[0] == "SP":
                t["mps"][i] = [t["mps"][i][0], ["SP", round(ob[1] + dl, 12), ob[2], ob[3]]]
            else:
                terms = [list(x) for x in ob[1]]
                j = w.randrange(len(terms))
                terms[j][0] = round(terms[j][0] + dl, 12)
                t["mps"][i] = [t["mps"][i][0], ["L", terms]]
        return t, kind
    if kind == "ctrl_perm":
        # the same controlled gate with its control wires listed in another order while the control values
        # stay where they are: a different unitary whenever the values are mixed
        if multi_ctrl:
            i = w.choice(multi_ctrl)
            o = t["ops"][i]
            t["ops"][i] = ["ctrl", o[1], list(reversed(o[2]))] + list(o[3:])
        else:
            cands = [i for i, o in enumerate(t["ops"]) if o[0] not in ("adjoint", "pow", "ctrl", "prodop")
                     and not isinstance((o[2] or [0])[0], dict) and len(set(wires) - set(o[1])) >= 2]
            if cands:
                i = w.choice(cands)
                free = [x for x in wires if x not in t["ops"][i][1]]
                t["ops"][i] = ["ctrl", t["ops"][i], w.sample(free, 2), w.choice([[0, 1], [1, 0], [0, 1], None])]
        return t, kind
    if kind == "arr_bump":
        # the same circuit except for a few entries of one array-valued parameter
        dl = w.choice([0.7, -0.3, 1e-2, 1e-4, 1e-6])
        idx = w.getrandbits(16)
        if arr_sites and (not arr_obs or w.random() < 0.6):
            path, leaf = w.choice(arr_sites)

            def fn_arr(o):
                a = dict(o[2][0])
                a["bumps"] = list(a["bumps"]) + [[idx, dl]]
                return [o[0], o[1], [a]]

            t["ops"][path[0]] = _replace_leaf(t["ops"][path[0]], fn_arr)
        else:
            i = w.choice(arr_obs)
            ob = t["mps"][i][1]
            t["mps"][i] = ["expval", [ob[0], ob[1], ob[2], list(ob[3]) + [[idx, dl]]]]
        return t, kind
    if kind in ("shift", "delta", "wrap_shift") and sites:
        path, leaf = w.choice(sites)
        j = w.randrange(len(leaf[2]))
        d = (w.choice([TWO_PI, -TWO_PI, 2 * TWO_PI, -2 * TWO_PI]) if kind != "delta"
             else w.choice([1e-3, -0.25, 1e-5, 2e-5, 1e-7]))

        def fn(o):
            p = list(o[2])
            p[j] = round(p[j] + d, 12)
            return [o[0], o[1], p]

        i = path[0]
        t["ops"][i] = _replace_leaf(t["ops"][i], fn)
        if kind == "wrap_shift" and t["ops"][i][0] not in ("adjoint", "pow", "ctrl"):
            # wrap BOTH the original and the shifted op the same way -> caller adds both
            pass
        return t, kind
    if kind == "relabel" and n > 1:
        perm = wires[:]
        w.shuffle(perm)
        wmap = dict(zip(wires, perm))
        t["ops"] = [qgen.map_op_wires(o, wmap) for o in t["ops"]]
        if w.random() < 0.5:
            t["mps"] = [qgen.map_mp_wires(m, wmap) for m in t["mps"]]
        return t, kind
    if kind == "trainable":
        npar = sum(len(leaf[2]) for _, leaf in all_sites)
        if npar:
            t["trainable"] = sorted(w.sample(range(npar), w.randint(0, npar)))
        return t, kind
    if kind == "wrap" and t["ops"]:
        i = w.randrange(len(t["ops"]))
        if t["ops"][i][0] not in ("adjoint", "pow", "ctrl", "prodop") and not isinstance((t["ops"][i][2] or [0])[0], dict):
            t["ops"][i] = _wrap(w, t["ops"][i], wires)
        return t, kind
    if kind == "unwrap":
        for i, o in enumerate(t["ops"]):
            if o[0] in ("adjoint", "pow", "ctrl"):
                t["ops"][i] = o[1]
                break
        return t, kind
    if kind == "measure":
        t["mps"] = _gen_mps(w, wires, bool(arr_obs) and len(wires) >= 5)
        if w.random() < 0.4 and tape["mps"][0][0] == "probs":
            t["mps"] = [["probs", list(reversed(tape["mps"][0][1]))]]
        return t, kind
    if kind == "swapops" and len(t["ops"]) > 1:
        i = w.randrange(len(t["ops"]) - 1)
        t["ops"][i], t["ops"][i + 1] = t["ops"][i + 1], t["ops"][i]
        return t, kind
    if kind == "rename" and sites:
        path, leaf = w.choice(sites)
        if leaf[0] in ("RX", "RY", "RZ"):
            new = w.choice([x for x in ("RX", "RY", "RZ") if x != leaf[0]])
            i = path[0]
            t["ops"][i] = _replace_leaf(t["ops"][i], lambda o: [new, o[1], o[2]])
        return t, kind
    return t, "dup"


def gen_case(streams, tier):
    w, f = streams["workload"], streams["fault"]
    n = w.randint(1, 4)
    big = w.random() < 0.06
    if big:
        n = w.choice([5, 5, 6, 6, 6, 10])
    # the array library the parameters live in, and whether the workflow converts them to numpy before
    # the cache sees them (diff_method=None) or not (backprop)
    iface = w.choice(["numpy"] * 32 + ["torch"] * 4 + ["jax"] + ["autograd"] * 3)
    diff = None if iface == "numpy" or w.random() < 0.4 else "backprop"
    r = f.random()
    if r < 0.30:
        store = {"kind": "true", "cachesize": f.choice([1, 2, 3, 5, 8, 10000, 10000])}
    elif r < 0.55:
        store = {"kind": "unbounded"}
    elif r < 0.80:
        store = {"kind": "lru", "capacity": f.randint(1, 8)}
    else:
        store = {"kind": "random", "evict_p": f.choice([0.05, 0.15, 0.4]), "seed": f.getrandbits(32)}
    pool = [_gen_base(w, n, big) for _ in range(w.randint(1, 2) if big else w.randint(1, 3))]
    mutators = {}
    for _ in range(w.randint(2, 8)):
        src = w.choice(pool)
        t, kind = _mutate(w, src, n)
        mutators[kind] = mutators.get(kind, 0) + 1
        pool.append(t)
    entry = w.choice(["execute", "execute", "execute", "qnode"])
    # a finite-shot sibling and analytic tapes DERIVED from already-built tape objects with
    # tape.copy(shots=None) / tape.copy(trainable_params=...): the copy must get its own fingerprint
    if w.random() < 0.3:
        cands = [i for i, t in enumerate(pool) if all(m[0] in ("expval", "var", "probs") for m in t["mps"])]
        if cands:
            entry = "execute"
            j = w.choice(cands)
            pool.append(dict(pool[j], shots=w.choice([1, 3, 10]), trainable=None))
            js = len(pool) - 1
            pool.append(dict(pool[j], shots=None, trainable=None, derive={"from": js, "shots": None}))
            mutators["derived_copy_shots"] = 1
            if w.random() < 0.5:
                npar = sum(len(leaf[2]) for _, leaf in _param_sites(pool[j]["ops"]))
                tr = sorted(w.sample(range(npar), w.randint(0, npar))) if npar else []
                pool.append(dict(pool[j], shots=None, trainable=tr, derive={"from": j, "trainable": tr}))
                mutators["derived_copy_trainable"] = 1
    if w.random() < 0.2 and n > 1:
        # a tape made with qp.map_wires from a tape OBJECT that was executed (fingerprinted) before
        # sources that hold a composite operation (whose hash is memoised on the object) are preferred
        with_comp = [i_ for i_, t_ in enumerate(pool) if any(o_[0] == "prodop" for o_ in t_["ops"])]
        j = w.choice(with_comp) if with_comp and w.random() < 0.8 else w.randrange(len(pool))
        if not pool[j].get("derive") and not pool[j].get("shots") and not any(
                isinstance((leaf[2] or [0])[0], dict) for _, leaf in _param_sites(pool[j]["ops"])):
            perm = list(range(n))
            w.shuffle(perm)
            wmap = {str(a): b for a, b in zip(range(n), perm)}
            from checks import qgen as _qg
            im = {a: b for a, b in zip(range(n), perm)}
            try:
                comp = [i_ for i_, o_ in enumerate(pool[j]["ops"]) if o_[0] == "prodop"]
                if comp and w.random() < 0.7:
                    # operator level: ONE operator of the fingerprinted circuit is re-used on other wires
                    # (qp.map_wires(op, wire_map)); everything else, the measurements included, stays
                    oi_ = w.choice(comp)
                    new_ops = [(_qg.map_op_wires(o, im) if i_ == oi_ else o) for i_, o in enumerate(pool[j]["ops"])]
                    mapped = dict(pool[j], ops=new_ops, derive={"from": j, "map_op": oi_, "map_wires": wmap})
                else:
                    mapped = dict(pool[j], ops=[_qg.map_op_wires(o, im) for o in pool[j]["ops"]],
                                  mps=[_qg.map_mp_wires(m, im) for m in pool[j]["mps"]],
                                  derive={"from": j, "map_wires": wmap})
                pool.append(mapped)
                mutators["derived_map_wires"] = 1
                entry = "execute"
            except (ValueError, KeyError):
                pass
    if w.random() < 0.15:
        # trainable indices [.., k] without shots next to trainable indices [..] with k shots
        cands = [i for i, t in enumerate(pool) if not t.get("shots") and not t.get("derive")
                 and all(m[0] in ("expval", "var", "probs") for m in t["mps"])
                 and sum(len(leaf[2]) for _, leaf in _param_sites(t["ops"])) >= 2]
        if cands:
            j = w.choice(cands)
            npar = sum(len(leaf[2]) for _, leaf in _param_sites(pool[j]["ops"]))
            k = w.randint(1, npar - 1)
            head = sorted(w.sample(range(k), w.randint(0, k)))
            pool.append(dict(pool[j], shots=k, trainable=head))
            pool.append(dict(pool[j], shots=None, trainable=head + [k]))
            mutators["shots_vs_trainable"] = 1
            entry = "execute"
    if store["kind"] == "true" and entry == "qnode":
        entry = "execute"  # cache=True builds a new cache per QNode call: nothing is shared
    calls = []
    for _ in range(w.randint(1, 4)):
        nt = 1 if entry == "qnode" else w.choice([1, 2, 2, 3, 4, 5, 6, 8])
        # recent pool entries (the near-duplicates and derived copies) are drawn more often
        calls.append({"tapes": [(len(pool) - 1 - min(len(pool) - 1, int(w.expovariate(0.35))))
                                if w.random() < 0.5 else w.randrange(len(pool)) for _ in range(nt)]})
    if iface != "numpy":
        entry = "execute"
    return {"n_wires": n, "store": store, "entry": entry, "pool": pool, "calls": calls,
            "mutators": mutators, "iface": iface, "diff": diff,
            "buffer_sweep": bool(big and iface == "numpy" and w.random() < 0.5)}


# ------------------------------------------------------------------------------------------------
# execution
# ------------------------------------------------------------------------------------------------


def _close(a, b, tol=1e-9):
    if isinstance(a, dict) and isinstance(b, dict):
        return a.keys() == b.keys() and all(_close(a[k], b[k], tol) for k in a)
    if isinstance(a, list) and isinstance(b, list):
        return len(a) == len(b) and all(_close(x, y, tol) for x, y in zip(a, b))
    if isinstance(a, (int, float)) and isinstance(b, (int, float)):
        return abs(a - b) <= tol
    return a == b


def _qnode_call(tape_spec, dev, cache, cachesize=10000):
    qp, qgen = _ENV["qp"], _ENV["qgen"]

    def circuit():
        qgen.build_ops(tape_spec["ops"])
        mps = [qgen.build_mp(m) for m in tape_spec["mps"]]
        return mps[0] if len(mps) == 1 else tuple(mps)

    return qp.QNode(circuit, dev, diff_method=None, cache=cache, cachesize=cachesize)()


def run_case(case):
    import hashlib
    import json

    qp, np, qgen, simcache = _ENV["qp"], _ENV["np"], _ENV["qgen"], _ENV["simcache"]
    n = case["n_wires"]
    st = case["store"]
    violations = []

    def same_val(a, b):
        return _close(qgen.to_jsonable(a), qgen.to_jsonable(b), 1e-9)

    sc = None
    if st["kind"] == "true":
        cache, cachesize = True, st["cachesize"]
    else:
        cachesize = 10000
        if st["kind"] == "unbounded":
            sc = simcache.SimCache("unbounded", same=same_val)
        elif st["kind"] == "lru":
            sc = simcache.SimCache("lru", capacity=st["capacity"], same=same_val)
        else:
            sc = simcache.SimCache("random", evict_p=st["evict_p"], fault_rng=random.Random(st["seed"]),
                                   same=same_val)
        cache = sc
    pressure_user = st["kind"] in ("lru", "random")
    pressure_own = st["kind"] == "true" and st["cachesize"] < 10000
    dev = qp.device("default.qubit", wires=n, seed=11)
    ref_dev = qp.device("default.qubit", wires=n, seed=12)
    results_log = []
    objs = {}

    sweep = bool(case.get("buffer_sweep"))
    bufs = {}

    def tape_obj(i):
        if sweep and not case["pool"][i].get("derive"):
            # parameter sweep: every circuit is built anew from arrays that live in one reused buffer per
            # operator (refilled in place); circuits built earlier are not used again.  Tapes derived from
            # persistent tape objects keep arrays of their own (a persistent tape whose array is refilled under
            # it would be the harness breaking the circuit, not the cache)
            qgen.ARRAY_BUFFERS = bufs
            try:
                return build_tape(case["pool"][i])
            finally:
                qgen.ARRAY_BUFFERS = None
        return _tape_obj(i)

    def _tape_obj(i):
        """Tape OBJECTS persist over the history (as a user's would): the fingerprint of a tape that was
        executed before is memoised, and derived tapes are made from those objects with tape.copy()."""
        if i not in objs:
            spec = case["pool"][i]
            d = spec.get("derive")
            if d:
                src = _tape_obj(d["from"])
                if "map_op" in d:
                    src.hash  # the source has been fingerprinted, as after an execution
                    wm = {int(a): b for a, b in d["map_wires"].items()}
                    ops_ = [(qp.map_wires(o, wm) if i_ == d["map_op"] else o) for i_, o in enumerate(src.operations)]
                    objs[i] = qp.tape.QuantumScript(ops_, src.measurements, shots=src.shots)
                elif "map_wires" in d:
                    src.hash  # the source has been fingerprinted, as after an execution
                    (objs[i],), _ = qp.map_wires(src, {int(a): b for a, b in d["map_wires"].items()})
                elif "trainable" in d:
                    objs[i] = src.copy(trainable_params=list(d["trainable"]))
                else:
                    objs[i] = src.copy(shots=d["shots"])
            else:
                objs[i] = build_tape(spec)
        return objs[i]

    iface, diff = case.get("iface", "numpy"), case.get("diff")

    def to_iface(tape):
        """The same tape with every parameter held by the case's array library."""
        if iface == "numpy":
            return tape
        if iface == "torch":
            import torch

            if not _ENV.get("torch_ready"):
                torch.set_num_threads(1)  # 16 workers: no intra-op thread pools on top
                _ENV["torch_ready"] = True
            conv = lambda x: torch.tensor(np.asarray(x))  # noqa: E731
        elif iface == "jax":
            import jax

            jax.config.update("jax_enable_x64", True)
            conv = lambda x: jax.numpy.asarray(np.asarray(x))  # noqa: E731
        else:
            from pennylane import numpy as pnp

            conv = lambda x: pnp.array(np.asarray(x), requires_grad=False)  # noqa: E731
        pars = tape.get_parameters(trainable_only=False)
        new = tape.bind_new_parameters([conv(x) for x in pars], list(range(len(pars))))
        new.trainable_params = tape.trainable_params
        return new

    _plain_build = qgen.build_tape

    def build_tape(spec):
        return to_iface(_plain_build(spec))

    has_shots = any(t.get("shots") for t in case["pool"])
    counters = {"calls": 0, "tapes": 0, "dups_in_batch": 0}
    for ci, call in enumerate(case["calls"]):
        specs = [case["pool"][i] for i in call["tapes"]]
        counters["calls"] += 1
        counters["tapes"] += len(specs)
        # two pool entries can be the same circuit (the "dup" mutator): duplicates are counted by content
        keys = [json.dumps([s_.get("ops"), s_.get("mps"), s_.get("shots"), s_.get("trainable")], sort_keys=True)
                for s_ in specs]
        counters["dups_in_batch"] += len(keys) - len(set(keys))
        # for the known-finding signature a "duplicate" is what the cache takes for one: an equal fingerprint
        # (two tapes 4*pi apart in an angle are distinct by content and one entry for the cache)
        try:
            hkeys = keys if sweep else [tape_obj(i).hash for i in call["tapes"]]
        except Exception:  # noqa: BLE001 - hashing itself fails: reported below through the execution
            hkeys = keys
        distinct_in_batch = len(set(hkeys))
        keys_for_sig = hkeys
        sig = {"store": st["kind"], "entry": case["entry"]}
        if iface != "numpy":
            sig["iface"] = iface
        try:
            if case["entry"] == "qnode":
                ref = [_qnode_call(specs[0], ref_dev, False)]
            else:
                ref = list(qp.execute([build_tape(s) for s in specs], ref_dev, diff_method=diff,
                                      cache=False))
            ref = qgen.to_jsonable(ref)
        except Exception as e:  # noqa: BLE001 - generated circuit invalid without any cache: skip call
            results_log.append(["ref_raise", type(e).__name__])
            counters["invalid_calls"] = counters.get("invalid_calls", 0) + 1
            continue
        try:
            if case["entry"] == "qnode":
                got = [_qnode_call(specs[0], dev, cache, cachesize)]
            else:
                if sweep:
                    # one circuit at a time: the next one reuses (overwrites) the previous one's buffers
                    got = [qp.execute([tape_obj(i)], dev, diff_method=diff, cache=cache, cachesize=cachesize)[0]
                           for i in call["tapes"]]
                else:
                    got = list(qp.execute([tape_obj(i) for i in call["tapes"]], dev, diff_method=diff,
                                          cache=cache, cachesize=cachesize))
            got = qgen.to_jsonable(got)
        except Exception as e:  # noqa: BLE001 - observation
            results_log.append(["raise", type(e).__name__])
            evict_error = isinstance(e, (KeyError, RuntimeError))
            if pressure_user and evict_error:
                counters["fault:eviction_lookup_failure_user_cache"] = counters.get(
                    "fault:eviction_lookup_failure_user_cache", 0) + 1
                continue
            sig2 = dict(sig, exc=type(e).__name__, capacity_pressure=bool(pressure_own or pressure_user),
                        cachesize_lt_distinct=bool(st["kind"] == "true" and st["cachesize"] < distinct_in_batch),
                        has_dups=len(keys_for_sig) != distinct_in_batch)
            violations.append({"klass": "exception_with_cache", "sig": sig2,
                               "detail": {"call": ci, "error": repr(e)[:200], "store": st,
                                          "batch": call["tapes"]}})
            continue
        results_log.append(got)
        if len(got) != len(ref):
            violations.append({"klass": "wrong_batch_length", "sig": sig,
                               "detail": {"call": ci, "expected": len(ref), "observed": len(got)}})
            continue
        for ti, (g, r) in enumerate(zip(got, ref)):
            if specs[ti].get("shots"):
                continue  # finite-shot sibling: only there to share the cache, its samples are not compared
            if not _close(g, r):
                # attribute: which other pool entry does the wrong value belong to?
                owner = None
                try:
                    allref = qgen.to_jsonable(list(qp.execute(
                        [build_tape(s) for s in case["pool"]], ref_dev, diff_method=diff, cache=False)))
                    owner = [j for j, rr in enumerate(allref) if _close(g, rr) and not case["pool"][j].get("shots")]
                except Exception:  # noqa: BLE001
                    pass
                violations.append({
                    "klass": "cached_result_differs", "sig": dict(sig, mp=specs[ti]["mps"][0][0]),
                    "detail": {"call": ci, "position": ti, "pool_index": call["tapes"][ti],
                               "tape": specs[ti], "with_cache": json.dumps(g)[:300],
                               "without_cache": json.dumps(r)[:300],
                               "value_belongs_to_pool_entries": owner,
                               "colliding_tapes": [case["pool"][j] for j in (owner or [])[:2]]}})
                break
    if sc is not None and sc.collisions and not has_shots:
        violations.append({"klass": "cache_key_collision", "sig": {"store": st["kind"]},
                           "detail": {"keys_with_two_values": len(sc.collisions)}})
    if sc is not None:
        counters.update({"cache_hits": sc.hits, "cache_misses": sc.misses, "cache_writes": sc.writes,
                         "fault:eviction": sc.evictions, "fault:placeholder_evicted": sc.placeholder_evictions})
        counters = {k: v for k, v in counters.items() if v or not k.startswith("fault:")}
        ev = sc.events
    else:
        ev = []
    counters["store:" + st["kind"]] = 1
    counters["entry:" + case["entry"]] = 1
    counters["iface:" + iface + ("+backprop" if diff else "")] = 1
    if sweep:
        counters["parameter_sweeps_through_one_buffer"] = 1
    if case["n_wires"] >= 5:
        counters["cases_with_large_array_parameters"] = 1
    for k, v in case.get("mutators", {}).items():
        counters["mutator:" + k] = v
    nontrivial = bool(counters["dups_in_batch"] or (sc is not None and (sc.hits or sc.evictions))
                      or (sc is None and len(case["calls"]) >= 1 and counters["dups_in_batch"]))
    h = hashlib.sha256(json.dumps([st, ev, results_log], sort_keys=True, default=str).encode())
    return {
        "violations": violations,
        "digest": h.hexdigest()[:24],
        "nontrivial": nontrivial,
        "counters": counters,
        "sim_time": 0.0,
        "case": case,
        "summary": {"events": ev[:30], "store": st},
    }


def shrink_candidates(case):
    from simkit.runner import shrink_list

    for calls in shrink_list(case["calls"], 1):
        yield dict(case, calls=calls)
    for ci, call in enumerate(case["calls"]):
        for tapes in shrink_list(call["tapes"], 1):
            yield dict(case, calls=case["calls"][:ci] + [dict(call, tapes=tapes)] + case["calls"][ci + 1:])
    # drop unused pool entries (re-index)
    used = sorted({i for c in case["calls"] for i in c["tapes"]})
    if len(used) < len(case["pool"]):
        remap = {old: new for new, old in enumerate(used)}
        yield dict(case, pool=[case["pool"][i] for i in used],
                   calls=[dict(c, tapes=[remap[i] for i in c["tapes"]]) for c in case["calls"]])
    # fewer ops / measurements per tape
    for pi, t in enumerate(case["pool"]):
        for ops in shrink_list(t["ops"], 0):
            yield dict(case, pool=case["pool"][:pi] + [dict(t, ops=ops, trainable=None)] + case["pool"][pi + 1:])
        if len(t["mps"]) > 1:
            for mps in shrink_list(t["mps"], 1):
                yield dict(case, pool=case["pool"][:pi] + [dict(t, mps=mps)] + case["pool"][pi + 1:])
        if t.get("trainable") is not None:
            yield dict(case, pool=case["pool"][:pi] + [dict(t, trainable=None)] + case["pool"][pi + 1:])
    if case["entry"] == "qnode":
        yield dict(case, entry="execute")
    if case["store"]["kind"] not in ("unbounded",):
        yield dict(case, store={"kind": "unbounded"})
