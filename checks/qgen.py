"""JSON-able circuit specifications and their translation into PennyLane objects.

op spec   : [name, wires, params]
obs spec  : ["P", word, wires]            Pauli word (tensor product), e.g. ["P", "XZ", [0, 2]]
            ["H", seed, wires]            random Hermitian on 1-2 wires
            ["L", [[c, word, wires], ...]] linear combination of Pauli words
            ["Proj", bits, wires]
mp spec   : [kind, arg, extra] with kind in expval/var/probs/sample/counts/state/density_matrix
tape spec : {"ops": [...], "mps": [...], "shots": None|int|[ints]}
"""
from __future__ import annotations

import math

G1 = ["Hadamard", "PauliX", "PauliY", "PauliZ", "S", "T", "SX"]
P1 = ["RX", "RY", "RZ", "PhaseShift"]
G2 = ["CNOT", "CZ", "SWAP", "CY"]
P2 = ["CRX", "CRY", "CRZ", "IsingXX", "IsingYY", "IsingZZ", "ControlledPhaseShift"]
G3 = ["Toffoli", "CSWAP"]


def rand_angle(r):
    return round(r.uniform(-math.pi, math.pi), 6)


def gen_ops(r, n_wires, depth, wires=None):
    wires = list(range(n_wires)) if wires is None else list(wires)
    ops = []
    for _ in range(depth):
        k = r.random()
        if k < 0.30 or len(wires) == 1:
            ops.append([r.choice(P1), [r.choice(wires)], [rand_angle(r)]])
        elif k < 0.45:
            ops.append([r.choice(G1), [r.choice(wires)], []])
        elif k < 0.52:
            ops.append(["Rot", [r.choice(wires)], [rand_angle(r), rand_angle(r), rand_angle(r)]])
        elif k < 0.75:
            ops.append([r.choice(G2), r.sample(wires, 2), []])
        elif k < 0.93 or len(wires) < 3:
            ops.append([r.choice(P2), r.sample(wires, 2), [rand_angle(r)]])
        else:
            ops.append([r.choice(G3), r.sample(wires, 3), []])
    return ops


def gen_pauli_word(r, wires, max_len=3):
    k = r.randint(1, min(max_len, len(wires)))
    ws = sorted(r.sample(list(wires), k))
    return ["P", "".join(r.choice("XYZ") for _ in ws), ws]


def gen_pm1_obs(r, wires):
    """Observables whose spectrum is {+1, -1} (or a multiple) but whose eigenvalue order is NOT the bit
    parity order: scaled Pauli words, words padded with identities, Hermitian involutions."""
    k = r.random()
    if k < 0.4:
        p = gen_pauli_word(r, wires, 3)
        return ["SP", r.choice([-1.0, -1.0, 1.0, -0.5, 2.0]), p[1], p[2]]
    if k < 0.65 and len(wires) >= 2:
        ws = sorted(r.sample(list(wires), r.randint(2, min(3, len(wires)))))
        word = [r.choice("XYZ") for _ in ws]
        word[r.randrange(len(ws))] = "I"
        if all(c == "I" for c in word):
            word[0] = "Z"
        return ["P", "".join(word), ws]
    if len(wires) >= 2:
        ws = r.sample(list(wires), 2)
        return ["HM", r.choice(["SWAP", "XX", "CNOT", "-ZZ", "XZ", "RND%d" % r.randrange(8)]), ws]
    return ["SP", -1.0, "Z", [wires[0]]]


def gen_obs(r, wires, allow_hermitian=True):
    k = r.random()
    if k < 0.6:
        return gen_pauli_word(r, wires)
    if k < 0.75 and allow_hermitian:
        ws = sorted(r.sample(list(wires), r.randint(1, min(2, len(wires)))))
        return ["H", r.getrandbits(30), ws]
    if k < 0.9:
        terms = []
        for _ in range(r.randint(2, 3)):
            p = gen_pauli_word(r, wires, 2)
            terms.append([round(r.uniform(-1, 1), 4), p[1], p[2]])
        return ["L", terms]
    ws = sorted(r.sample(list(wires), r.randint(1, min(2, len(wires)))))
    return ["Proj", [r.randint(0, 1) for _ in ws], ws]


# ------------------------------------------------------------------------------------------------
# builders
# ------------------------------------------------------------------------------------------------


def build_op(spec):
    """[name, wires, params] | ["adjoint", spec] | ["pow", spec, z] | ["ctrl", spec, controls, values]"""
    import pennylane as qp

    head = spec[0]
    if head == "adjoint":
        return qp.adjoint(build_op(spec[1]))
    if head == "pow":
        return qp.pow(build_op(spec[1]), spec[2])
    if head == "prodop":  # ["prodop", spec_a, spec_b]: a product of two gates used as ONE operation
        return qp.prod(build_op(spec[1]), build_op(spec[2]))
    if head == "ctrl":
        kw = {}
        if len(spec) > 3 and spec[3] is not None:
            kw["control_values"] = spec[3]
        return qp.ctrl(build_op(spec[1]), control=spec[2], **kw)
    name, wires, params = spec
    if params and isinstance(params[0], dict):  # array-valued parameter, see array_param
        arr = array_param(name, len(wires), params[0])
        if ARRAY_BUFFERS is not None:
            # the caller's preallocated buffer, refilled in place for every new circuit (parameter sweep)
            buf = ARRAY_BUFFERS.setdefault((name, len(wires), tuple(wires)), arr.copy())
            buf[...] = arr
            arr = buf
        return getattr(qp, name)(arr, wires=wires)
    return getattr(qp, name)(*params, wires=wires)


ARRAY_BUFFERS = None  # dict while a check wants array parameters to live in reused buffers


def array_param(name, k, a):
    """Array-valued operator parameter from {"seed": s, "bumps": [[i, delta], ...]}: a seeded unitary /
    phase vector / state vector of k wires; a bump rotates rows (entries) i, i+1 by the angle delta, so the
    result stays a valid parameter and differs from the unbumped one only in those rows (entries)."""
    import math

    import numpy as np

    g = np.random.Generator(np.random.PCG64(a["seed"]))
    d = 2**k
    bumps = a.get("bumps", [])
    if name == "QubitUnitary":
        q, _ = np.linalg.qr(g.normal(size=(d, d)) + 1j * g.normal(size=(d, d)))
        for i, dl in bumps:
            i = i % (d - 1)
            c, sn = math.cos(dl), math.sin(dl)
            r0, r1 = q[i].copy(), q[i + 1].copy()
            q[i], q[i + 1] = c * r0 - sn * r1, sn * r0 + c * r1
        return q
    if name == "DiagonalQubitUnitary":
        ph = g.uniform(-3, 3, size=d)
        for i, dl in bumps:
            ph[i % d] += dl
        return np.exp(1j * ph)
    if name == "StatePrep":
        v = g.normal(size=d) + 1j * g.normal(size=d)
        v = v / np.linalg.norm(v)
        for i, dl in bumps:
            i = i % (d - 1)
            c, sn = math.cos(dl), math.sin(dl)
            v[i], v[i + 1] = c * v[i] - sn * v[i + 1], sn * v[i] + c * v[i + 1]
        return v
    raise ValueError(name)


def op_wires(spec):
    if spec[0] == "prodop":
        return op_wires(spec[1]) + [x for x in op_wires(spec[2]) if x not in op_wires(spec[1])]
    if spec[0] in ("adjoint", "pow"):
        return op_wires(spec[1])
    if spec[0] == "ctrl":
        return list(spec[2]) + op_wires(spec[1])
    return list(spec[1])


def map_op_wires(spec, wmap):
    if spec[0] == "adjoint":
        return ["adjoint", map_op_wires(spec[1], wmap)]
    if spec[0] == "pow":
        return ["pow", map_op_wires(spec[1], wmap), spec[2]]
    if spec[0] == "prodop":
        return ["prodop", map_op_wires(spec[1], wmap), map_op_wires(spec[2], wmap)]
    if spec[0] == "ctrl":
        return ["ctrl", map_op_wires(spec[1], wmap), [wmap[w] for w in spec[2]]] + list(spec[3:])
    return [spec[0], [wmap[w] for w in spec[1]], list(spec[2])]


def map_obs_wires(spec, wmap):
    k = spec[0]
    if k == "P":
        return ["P", spec[1], [wmap[w] for w in spec[2]]]
    if k == "H":
        return ["H", spec[1], [wmap[w] for w in spec[2]]]
    if k == "L":
        return ["L", [[c, w, [wmap[x] for x in ws]] for c, w, ws in spec[1]]]
    if k == "Proj":
        return ["Proj", spec[1], [wmap[w] for w in spec[2]]]
    if k in ("HB", "SPH"):
        return [k, spec[1], [wmap[w] for w in spec[2]], spec[3]]
    raise ValueError(k)


def map_mp_wires(spec, wmap):
    kind = spec[0]
    if kind == "state":
        return list(spec)
    arg = spec[1]
    if isinstance(arg, list) and arg and isinstance(arg[0], str):
        return [kind, map_obs_wires(arg, wmap)] + list(spec[2:])
    return [kind, [wmap[w] for w in arg]] + list(spec[2:])


def build_ops(specs):
    return [build_op(s) for s in specs]


def _word(word, wires):
    import pennylane as qp

    m = {"X": qp.X, "Y": qp.Y, "Z": qp.Z, "I": qp.I}
    ops = [m[c](w) for c, w in zip(word, wires)]
    return ops[0] if len(ops) == 1 else qp.prod(*ops)


def hermitian_matrix(seed, n):
    import numpy as np

    g = np.random.Generator(np.random.PCG64(seed))
    a = g.normal(size=(2**n, 2**n)) + 1j * g.normal(size=(2**n, 2**n))
    return (a + a.conj().T) / 2


def build_obs(spec):
    import pennylane as qp

    kind = spec[0]
    if kind == "P":
        return _word(spec[1], spec[2])
    if kind == "H":
        return qp.Hermitian(hermitian_matrix(spec[1], len(spec[2])), wires=spec[2])
    if kind == "L":
        return qp.sum(*[qp.s_prod(c, _word(w, ws)) for c, w, ws in spec[1]])
    if kind == "Proj":
        return qp.Projector(spec[1], wires=spec[2])
    if kind == "HB":  # large dense Hermitian with symmetric bumps: ["HB", seed, wires, [[i, delta], ...]]
        m = hermitian_matrix(spec[1], len(spec[2]))
        d = m.shape[0]
        for i, dl in spec[3]:
            i, j = i % d, (i + 1) % d
            m[i, j] += dl
            m[j, i] += dl
        return qp.Hermitian(m, wires=spec[2])
    if kind == "SPH":  # sparse Hamiltonian (diagonal plus nearest-neighbour couplings), bumps on the diagonal
        import numpy as np
        import scipy.sparse as sp

        d = 2 ** len(spec[2])
        g = np.random.Generator(np.random.PCG64(spec[1]))
        diag = g.normal(size=d)
        off = g.normal(size=d - 1) * (g.random(size=d - 1) < 0.5)
        for i, dl in spec[3]:
            diag[i % d] += dl
        return qp.SparseHamiltonian(sp.csr_matrix(sp.diags([diag, off, off], [0, 1, -1])), wires=spec[2])
    if kind == "SP":  # scaled Pauli word, e.g. -1.0 * (Z(0) @ Z(1))
        return qp.s_prod(spec[1], _word(spec[2], spec[3]))
    if kind == "HM":  # Hermitian given by a named involutory matrix (eigenvalues +-1, sorted by eigh)
        from ref import sim

        return qp.Hermitian(sim.named_matrix(spec[1]), wires=spec[2])
    raise ValueError(kind)


def build_mp(spec):
    import pennylane as qp

    kind = spec[0]
    arg = spec[1] if len(spec) > 1 else None
    if kind == "state":
        return qp.state()
    if kind == "density_matrix":
        return qp.density_matrix(wires=arg)
    if kind == "probs":
        return qp.probs(wires=arg)
    if kind in ("expval", "var"):
        return getattr(qp, kind)(build_obs(arg))
    if kind in ("sample", "counts"):
        kw = {}
        if kind == "counts" and len(spec) > 2 and spec[2]:
            kw["all_outcomes"] = True
        if isinstance(arg, list) and arg and isinstance(arg[0], str):
            return getattr(qp, kind)(build_obs(arg), **kw)
        return getattr(qp, kind)(wires=arg, **kw)
    raise ValueError(kind)


def build_tape(spec):
    import pennylane as qp

    shots = spec.get("shots")
    if isinstance(shots, list):  # ints and [shots, copies] pairs
        shots = tuple(tuple(x) if isinstance(x, list) else x for x in shots)
    tape = qp.tape.QuantumScript(build_ops(spec["ops"]), [build_mp(m) for m in spec["mps"]],
                                 shots=shots)
    if spec.get("trainable") is not None:
        tape.trainable_params = list(spec["trainable"])
    return tape


def to_jsonable(x):
    """Results -> nested lists/dicts of python scalars (exact: floats via repr-able python floats)."""
    import numpy as np

    if isinstance(x, dict):
        return {str(k): to_jsonable(v) for k, v in sorted(x.items(), key=lambda kv: str(kv[0]))}
    if isinstance(x, (list, tuple)):
        return [to_jsonable(v) for v in x]
    if hasattr(x, "shape") or isinstance(x, np.generic):
        if hasattr(x, "detach"):
            x = x.detach()
        a = np.asarray(x)
        if np.iscomplexobj(a):
            return {"re": a.real.tolist(), "im": a.imag.tolist()}
        return a.tolist()
    return x
