"""C41 -- queuing records exactly the program's operations, in order, in the innermost context.

Real code: QueuingManager, AnnotatedQueue, QuantumTape, stop_recording, qp.apply, Operator.queue, the
wrapper constructors (adjoint, pow, ctrl, prod, sum, s_prod, @, +, *), measurement constructors,
qp.adjoint(fn) / qp.ctrl(fn) / qp.for_loop / qp.cond in tape mode, QuantumScript.from_queue.
Nothing is stubbed.  The technique's contribution is exception injection at every statement boundary
of a recording program (crash points), plus exceptions PennyLane raises half-way through a constructor.
"""
from __future__ import annotations

ID = "C41"
LEVEL = "exploration"
TIERS = {
    "quick": {"runs": 40_000, "wall": 80, "chunk": 400, "shrink_s": 30, "run_cap_s": 120},
    "thorough": {"runs": 5_000_000, "wall": 840, "chunk": 1000, "shrink_s": 90, "run_cap_s": 120},
}
RULE = (
    "one run = one generated recording program of <=25 statements: nested AnnotatedQueue / QuantumTape / "
    "stop_recording contexts (depth <=4), operator and measurement constructors, wrapper constructors over "
    "operands created in the same or another context, qp.apply, qp.adjoint(fn)/qp.ctrl(fn)/for_loop/cond "
    "bodies, an injected exception at a seeded statement boundary caught at a seeded outer level, and "
    "constructor calls that PennyLane itself rejects half-way. After every statement the recording flag "
    "and the identity of the active context are compared with a stack-of-lists model; every closed context "
    "is compared with its model list by object identity; a probe program recorded afterwards must contain "
    "exactly its own operations and neither queuing lock may still be held. distinct = distinct "
    "trace digest; non-trivial = an exception crossed at least one context boundary, or a wrapper "
    "consumed an operand, or something was created under stop_recording."
)
SIM_TIME_NOTE = "no clock on this path"
REAL = ["pennylane.core.queuing (QueuingManager, AnnotatedQueue, apply, stop_recording)",
        "pennylane.tape.QuantumTape (enter/exit/_process_queue)",
        "Operator.queue and the op_math wrapper constructors", "measurement constructors",
        "qp.adjoint(fn), qp.ctrl(fn), qp.for_loop, qp.cond (tape mode)"]
STUBBED = []
NOT_INJECTED = [
    "thread interleavings: the property quantifies over programs and histories, not schedules (the queuing stack is process-global by design)",
    "clock/network/disk faults: none exist on this path",
]
ASSUMPTIONS = [
    "when PennyLane itself raises half-way through a constructor, the *content* of the context active at that moment is unspecified (an operand may already have been queued); only the stack discipline and the later probe are checked for that one context",
    "nested QuantumTape objects that appear in the enclosing queue are ignored: only operators and measurements are compared",
]

_ENV = {}


class Boom(Exception):
    pass


def preimport():
    setup()


def setup():
    if _ENV.get("ready"):
        return
    import warnings

    import pennylane as qp
    from pennylane.measurements import MeasurementProcess
    from pennylane.operation import Operator
    from pennylane.queuing import AnnotatedQueue, QueuingManager
    from pennylane.tape import QuantumTape

    warnings.filterwarnings("ignore")
    _ENV.update(qp=qp, AQ=AnnotatedQueue, QM=QueuingManager, Tape=QuantumTape, Operator=Operator,
                MP=MeasurementProcess, ready=True)
    # warm every lazily imported code path once, in the parent, before workers are forked
    from simkit.core import Streams, derive_seed

    try:
        for i in range(300):
            run_case(gen_case(Streams(derive_seed("warm", i)), "quick"))
    except Exception:  # noqa: BLE001 - warm-up only; the search itself reports what is wrong
        pass


# ------------------------------------------------------------------------------------------------
# generation
# ------------------------------------------------------------------------------------------------

GATES = [("PauliX", 1, 0), ("PauliY", 1, 0), ("PauliZ", 1, 0), ("Hadamard", 1, 0), ("S", 1, 0),
         ("RX", 1, 1), ("RY", 1, 1), ("RZ", 1, 1), ("CNOT", 2, 0), ("CZ", 2, 0), ("CRX", 2, 1),
         ("IsingXX", 2, 1), ("Toffoli", 3, 0)]
WRAPS = ["adjoint", "pow", "ctrl", "prod", "sum", "s_prod", "matmul", "add", "mul"]
OBS = ["PauliX", "PauliY", "PauliZ", "Hadamard"]


def _gen_gate(w):
    name, nw, npar = w.choice(GATES)
    return [name, w.sample(range(4), nw), [round(w.uniform(-3, 3), 3) for _ in range(npar)]]


def _pick(w, st, local):
    vars_ = st["vars"]
    if local and w.random() < 0.7:
        return w.choice(local[-3:])
    return vars_[-1 - min(len(vars_) - 1, int(w.expovariate(0.7)))]


def _gen_block(w, f, depth, budget, st):
    block = []
    local = []  # vars created in this block (hence probably still in the active queue)
    for _ in range(w.randint(1, 5)):
        if budget[0] <= 0:
            break
        budget[0] -= 1
        st["sid"] += 1
        sid = st["sid"]
        r = w.random()
        vars_ = st["vars"]
        if r < 0.22 and depth < 4:
            kind = w.choice(["aq", "aq", "tape", "tape", "stop"])
            body = _gen_block(w, f, depth + 1, budget, st)
            block.append({"k": "ctx", "sid": sid, "kind": kind, "body": body, "catch": w.random() < 0.5})
        elif r < 0.50 or not vars_:
            v = f"v{sid}"
            block.append({"k": "op", "sid": sid, "id": v, "g": _gen_gate(w)})
            vars_.append(v)
            local.append(v)
        elif r < 0.68:
            fn = w.choice(WRAPS)
            nargs = 2 if fn in ("prod", "sum", "matmul", "add") else 1
            # bias towards recent vars (likely in the active queue)
            args = [_pick(w, st, local) for _ in range(nargs)]
            v = f"v{sid}"
            extra = None
            if fn == "pow":
                extra = w.choice([2, 3, 0.5, -1])
            elif fn == "ctrl":
                extra = [w.choice([4, 5])]
            elif fn in ("s_prod", "mul"):
                extra = w.choice([2.0, -0.5, 3])
            block.append({"k": "wrap", "sid": sid, "id": v, "fn": fn, "args": args, "extra": extra})
            vars_.append(v)
            local.append(v)
        elif r < 0.76:
            a = _pick(w, st, local)
            block.append({"k": "mp", "sid": sid, "id": f"m{sid}", "kind": w.choice(["expval", "var", "sample", "counts", "probs_op"]),
                          "arg": a})
        elif r < 0.80:
            block.append({"k": "mpw", "sid": sid, "id": f"m{sid}", "kind": w.choice(["probs", "sample", "counts"]),
                          "wires": w.sample(range(4), w.randint(1, 3))})
        elif r < 0.88:
            a = w.choice(vars_)
            v = f"v{sid}"
            block.append({"k": "apply", "sid": sid, "id": v, "arg": a})
            vars_.append(v)
        elif r < 0.93:
            fn = w.choice(["adjoint", "ctrl", "for_loop", "cond_true", "cond_false", "prod", "prod", "mcm_cond",
                           "mcm_cond_else", "adjoint_ctrl"])
            body = [_gen_gate(w) for _ in range(w.randint(1, 3))]
            block.append({"k": "fnwrap", "sid": sid, "fn": fn, "body": body, "n": w.randint(0, 3)})
        elif r < 0.95:
            # stop_recording in its decorator form, on a helper that may re-enter itself and may open a
            # context of its own while recording is suspended
            block.append({"k": "stopdec", "sid": sid, "depth": w.choice([0, 0, 1, 2, 3]),
                          "body": [_gen_gate(w) for _ in range(w.randint(0, 2))],
                          "inner_ctx": w.random() < 0.3, "raise_inside": w.random() < 0.15})
        elif r < 0.96:
            # library code that uses the same machinery internally
            block.append({"k": "lib", "sid": sid, "which": w.choice(["trotter1", "trotter2", "trotter4", "trotter4"]),
                          "n": w.randint(1, 2)})
        elif r < 0.975:
            body = [_gen_gate(w) for _ in range(w.randint(0, 3))]
            block.append({"k": "mkqs", "sid": sid, "body": body, "mp": w.random() < 0.5})
        elif r < 0.985 and vars_:
            block.append({"k": "apply_ctx", "sid": sid, "id": f"v{sid}", "arg": w.choice(vars_), "up": w.randint(0, 3)})
            vars_.append(f"v{sid}")
        else:
            block.append({"k": "bad", "sid": sid, "which": w.choice(["wire_count", "ctrl_overlap", "sample_obs_and_wires"])})
    return block


def _count(block):
    n = 0
    for s in block:
        n += 1
        if s["k"] == "ctx":
            n += _count(s["body"])
    return n


def _insert_raise(block, pos, counter):
    """Insert a raise statement before the pos-th statement (pre-order); returns True if inserted."""
    for i, s in enumerate(block):
        if counter[0] == pos:
            block.insert(i, {"k": "raise", "sid": -1})
            return True
        counter[0] += 1
        if s["k"] == "ctx" and _insert_raise(s["body"], pos, counter):
            return True
    if counter[0] == pos:
        block.append({"k": "raise", "sid": -1})
        return True
    return False


def gen_case(streams, tier):
    w, f = streams["workload"], streams["fault"]
    st = {"sid": 0, "vars": []}
    budget = [w.randint(4, 25)]
    prog = []
    while budget[0] > 0:
        prog.extend(_gen_block(w, f, 0, budget, st))
    crash = None
    if f.random() < 0.55:
        n = _count(prog)
        crash = f.randrange(n + 1)
        _insert_raise(prog, crash, [0])
    return {"program": prog, "crash_point": crash}


# ------------------------------------------------------------------------------------------------
# execution
# ------------------------------------------------------------------------------------------------


class _Slot:
    __slots__ = ("obj", "name", "applied_from")

    def __init__(self, obj, name=None, applied_from=None):
        self.obj, self.name, self.applied_from = obj, name, applied_from


class _Frame:
    __slots__ = ("kind", "items", "obj", "indeterminate", "sid")

    def __init__(self, kind, obj, sid):
        self.kind, self.obj, self.sid = kind, obj, sid
        self.items = []
        self.indeterminate = False


def run_case(case):
    from simkit.core import Trace

    qp, AQ, QM, Tape = _ENV["qp"], _ENV["AQ"], _ENV["QM"], _ENV["Tape"]
    Operator, MP = _ENV["Operator"], _ENV["MP"]
    trace = Trace(keep=False)
    violations = []
    counters = {"statements": 0, "contexts": 0, "consumed_operands": 0, "under_stop_recording": 0,
                "exceptions_crossing_contexts": 0, "applies": 0, "pennylane_rejections": 0,
                "contexts_compared": 0}
    env = {}
    # model: stack of stacks (stop_recording hides everything beneath it)
    stacks = [[]]

    def viol(klass, sig, detail):
        if len(violations) < 4:
            violations.append({"klass": klass, "sig": sig, "detail": detail})

    def active():
        return stacks[-1][-1] if stacks[-1] else None

    def describe(o):
        try:
            return repr(o)[:60]
        except Exception:  # noqa: BLE001
            return type(o).__name__

    def check_stack(where):
        fr = active()
        rec = QM.recording()
        if rec != (fr is not None):
            viol("recording_flag_wrong", {"where": where}, {"expected": fr is not None, "observed": rec})
            return
        ctx = QM.active_context()
        if (fr is None and ctx is not None) or (fr is not None and ctx is not fr.obj):
            viol("active_context_wrong", {"where": where},
                 {"expected_sid": fr.sid if fr else None, "observed": describe(ctx)})

    # The model works on program *variables*, not on object identity alone: an entry created by
    # qp.apply(v) is a separate entry of the program even if a faulty implementation queues v itself
    # instead of a copy -- consuming v later (adjoint(v), v @ w, ...) must not take the applied entry away.
    def record(obj, name=None, applied_from=None):
        fr = active()
        if fr is not None:
            fr.items.append(_Slot(obj, name, applied_from))
        else:
            counters["under_stop_recording"] += 1 if len(stacks) > 1 else 0

    def _drop(pred):
        fr = active()
        if fr is not None:
            n0 = len(fr.items)
            fr.items = [x for x in fr.items if not pred(x)]
            if len(fr.items) != n0:
                counters["consumed_operands"] += 1

    def consume_name(name):
        _drop(lambda sl: sl.name == name)

    def consume(obj):
        # by object (flattened operands of a result): an applied entry that aliases its source object
        # is not the object the program consumed
        _drop(lambda sl: sl.obj is obj and not (sl.applied_from is not None and sl.obj is env.get(sl.applied_from)))

    def compare(fr, observed_ops, observed_mps, ordered_together, how):
        counters["contexts_compared"] += 1
        if fr.indeterminate:
            return
        exp = [x.obj for x in fr.items if isinstance(x.obj, (Operator, MP))]
        if ordered_together:
            obs = [o for o in observed_ops if isinstance(o, (Operator, MP))]
            ok = len(obs) == len(exp) and all(a is b for a, b in zip(obs, exp))
        else:
            eo = [x for x in exp if not isinstance(x, MP)]
            em = [x for x in exp if isinstance(x, MP)]
            oo = [o for o in observed_ops if isinstance(o, Operator)]
            obs = oo + list(observed_mps)
            ok = (len(oo) == len(eo) and all(a is b for a, b in zip(oo, eo))
                  and len(observed_mps) == len(em) and all(a is b for a, b in zip(observed_mps, em)))
        trace.log("close", fr.kind, fr.sid, [type(x).__name__ for x in exp])
        if not ok:
            exp_ids = {id(x) for x in exp}
            obs_ids = {id(x) for x in obs}
            sub = ("missing" if exp_ids - obs_ids else "") + ("extra" if obs_ids - exp_ids else "")
            viol("context_content_wrong", {"kind": fr.kind, "how": how, "diff": sub or "order"},
                 {"context_sid": fr.sid, "expected": [describe(x) for x in exp],
                  "observed": [describe(x) for x in obs]})

    def build_gate(g):
        return getattr(qp, g[0])(*g[2], wires=g[1])

    def run_block(block):
        for s in block:
            counters["statements"] += 1
            k = s["k"]
            trace.log("stmt", s["sid"], k)
            if k == "ctx":
                counters["contexts"] += 1
                kind = s["kind"]
                try:
                    if kind == "stop":
                        with QM.stop_recording():
                            stacks.append([])
                            try:
                                check_stack("enter_stop")
                                run_block(s["body"])
                            finally:
                                stacks.pop()
                    else:
                        cm = AQ() if kind == "aq" else Tape()
                        fr = _Frame(kind, cm, s["sid"])
                        exc_exit = False
                        if kind == "tape" and active() is not None:
                            # a QuantumTape announces itself to the enclosing context when entered;
                            # it is neither an operator nor a measurement, so it is not compared, but
                            # an enclosing *tape* treats it as an operation when it checks ordering
                            active().items.append(_Slot(cm))
                        try:
                            with cm:
                                stacks[-1].append(fr)
                                try:
                                    check_stack("enter")
                                    run_block(s["body"])
                                except BaseException:
                                    exc_exit = True
                                    raise
                                finally:
                                    stacks[-1].pop()
                        except ValueError as e:
                            # a tape rejects an operation recorded after a measurement when it closes
                            seen_mp = False
                            bad_order = False
                            for x in (sl.obj for sl in fr.items):
                                if isinstance(x, MP):
                                    seen_mp = True
                                elif seen_mp:
                                    bad_order = True
                            if kind == "tape" and (bad_order or fr.indeterminate) and "prior to measurements" in str(e):
                                counters["pennylane_rejections"] += 1
                                fr.indeterminate = True
                                trace.log("tape_rejected_order", s["sid"])
                            else:
                                viol("unexpected_exception", {"where": "context_exit", "kind": kind},
                                     {"error": repr(e)[:200]})
                                fr.indeterminate = True
                        finally:
                            if kind == "aq":
                                compare(fr, cm.queue, [], True, "exception" if exc_exit else "normal")
                            else:
                                compare(fr, cm.operations, cm.measurements, False,
                                        "exception" if exc_exit else "normal")
                except Boom:
                    counters["exceptions_crossing_contexts"] += 1
                    if not s["catch"]:
                        raise
                check_stack("after_ctx")
            elif k == "op":
                obj = build_gate(s["g"])
                env[s["id"]] = obj
                record(obj, s["id"])
            elif k == "wrap":
                args = [env.get(a) for a in s["args"]]
                if any(a is None or isinstance(a, MP) for a in args):
                    continue
                fn, extra = s["fn"], s["extra"]
                try:
                    if fn == "adjoint":
                        obj = qp.adjoint(args[0])
                    elif fn == "pow":
                        obj = qp.pow(args[0], extra)
                    elif fn == "ctrl":
                        obj = qp.ctrl(args[0], control=extra)
                    elif fn == "prod":
                        obj = qp.prod(args[0], args[1])
                    elif fn == "sum":
                        obj = qp.sum(args[0], args[1])
                    elif fn == "s_prod":
                        obj = qp.s_prod(extra, args[0])
                    elif fn == "matmul":
                        obj = args[0] @ args[1]
                    elif fn == "add":
                        obj = args[0] + args[1]
                    else:
                        obj = extra * args[0]
                except Boom:
                    raise
                except Exception as e:  # noqa: BLE001 - PennyLane rejected the construction
                    counters["pennylane_rejections"] += 1
                    fr = active()
                    if fr is not None:
                        fr.indeterminate = True
                    trace.log("rejected", s["sid"], type(e).__name__)
                    check_stack("after_rejection")
                    continue
                for a_name in s["args"]:
                    consume_name(a_name)
                # arithmetic constructors flatten nested sums/products/scalings: whatever ends up
                # as a direct operand of the result is "recorded only through its wrapper" too
                b = getattr(obj, "base", None)
                if isinstance(b, Operator):
                    consume(b)
                for b in getattr(obj, "operands", ()) or ():
                    consume(b)
                env[s["id"]] = obj
                record(obj, s["id"])
            elif k == "mp":
                a = env.get(s["arg"])
                if a is None or isinstance(a, MP):
                    continue
                try:
                    if s["kind"] == "probs_op":
                        obj = qp.probs(op=a)
                    else:
                        obj = getattr(qp, s["kind"])(a)
                except Exception as e:  # noqa: BLE001
                    counters["pennylane_rejections"] += 1
                    fr = active()
                    if fr is not None:
                        fr.indeterminate = True
                    trace.log("rejected", s["sid"], type(e).__name__)
                    continue
                consume_name(s["arg"])
                env[s["id"]] = obj
                record(obj, s["id"])
            elif k == "mpw":
                obj = getattr(qp, s["kind"])(wires=s["wires"])
                env[s["id"]] = obj
                record(obj, s["id"])
            elif k == "apply":
                a = env.get(s["arg"])
                if a is None:
                    continue
                counters["applies"] += 1
                fr = active()
                try:
                    obj = qp.apply(a)
                except RuntimeError as e:
                    if fr is not None:
                        viol("apply_failed_while_recording", {"stmt": "apply"}, {"error": str(e)[:120]})
                    continue
                if fr is None:
                    viol("apply_succeeded_without_context", {"stmt": "apply"}, {"arg": describe(a)})
                    continue
                # operands of a re-queued wrapper are recorded only through the wrapper
                for attr in ("base", "obs"):
                    b = getattr(obj, attr, None)
                    if b is not None and isinstance(b, Operator):
                        consume(b)
                for b in getattr(obj, "operands", ()) or ():
                    consume(b)
                env[s["id"]] = obj
                record(obj, s["id"], applied_from=s["arg"])
            elif k == "fnwrap":
                fr = active()
                made = []

                def body_fn(*_a):
                    for g in s["body"]:
                        made.append(build_gate(g))

                fn = s["fn"]
                if fn == "adjoint":
                    qp.adjoint(body_fn)()
                    expect = [f"Adjoint({g[0]})" for g in reversed(s["body"])]
                elif fn == "ctrl":
                    qp.ctrl(body_fn, control=[6])()
                    expect = [None] * len(s["body"])
                elif fn == "for_loop":
                    qp.for_loop(0, s["n"], 1)(lambda i: body_fn())()
                    expect = [g[0] for g in s["body"]] * s["n"]
                elif fn == "prod":
                    # function form of a wrapper constructor: one operator passes through as itself,
                    # several are recorded only through the product
                    res = qp.prod(body_fn)()
                    expect = [s["body"][0][0]] if len(s["body"]) == 1 else ["Prod"]
                    counters["wrapper_function_forms"] = counters.get("wrapper_function_forms", 0) + 1
                    if len(s["body"]) > 1 and not (len(getattr(res, "operands", ())) == len(s["body"])
                                                   and {id(o) for o in res.operands} == {id(o) for o in made}):
                        viol("function_transform_records_wrong", {"fn": "prod_operands"},
                             {"expected": [g[0] for g in s["body"]], "observed": describe(res)})
                elif fn == "mcm_cond":
                    # a mid-circuit measurement and a body conditioned on it: the measurement, then every body
                    # operator through its Conditional wrapper only
                    mv = qp.measure(7)
                    qp.cond(mv, body_fn)()
                    expect = ["MidMeasureMP"] + [f"Conditional({g[0]})" for g in s["body"]]
                elif fn == "mcm_cond_else":
                    mv = qp.measure(7)
                    g0 = s["body"][0]
                    qp.cond(mv == 0, getattr(qp, g0[0]), qp.PauliY)(*g0[2], wires=g0[1]) if not g0[2] and len(g0[1]) == 1 \
                        else qp.cond(mv == 0, getattr(qp, g0[0]))(*g0[2], wires=g0[1])
                    expect = ["MidMeasureMP", f"Conditional({g0[0]})"] + (["Conditional(PauliY)"] if not g0[2] and len(g0[1]) == 1 else [])
                elif fn == "adjoint_ctrl":
                    qp.adjoint(qp.ctrl(body_fn, control=[6]))()
                    expect = [None] * len(s["body"])
                elif fn == "cond_true":
                    qp.cond(True, body_fn)()
                    expect = [g[0] for g in s["body"]]
                else:
                    qp.cond(False, body_fn)()
                    expect = []
                if fr is not None and not fr.indeterminate:
                    # the recorded objects are created inside PennyLane: identify them by position
                    new = [o for o in fr.obj.queue if isinstance(o, (Operator, MP))]
                    known = {id(x.obj) for x in fr.items}
                    fresh = [o for o in new if id(o) not in known]
                    names = [o.name for o in fresh]
                    ok = len(fresh) == len(expect) and all(e is None or e == nme for e, nme in zip(expect, names))
                    if fn in ("ctrl", "adjoint_ctrl"):
                        ok = ok and all(6 in o.wires.tolist() for o in fresh)
                    if fn == "adjoint_ctrl":
                        ok = ok and all(nme.startswith("Adjoint(") for nme in names)
                    if not ok:
                        viol("function_transform_records_wrong", {"fn": fn},
                             {"expected": expect, "observed": names})
                        fr.indeterminate = True
                    else:
                        fr.items.extend(_Slot(o) for o in fresh)
            elif k == "stopdec":
                fr = active()
                before = len(fr.obj.queue) if fr is not None else 0
                spec = s

                @QM.stop_recording()
                def helper(n):
                    check_stack_suspended()
                    for g in spec["body"]:
                        build_gate(g)
                    if spec["inner_ctx"]:
                        with AQ() as inner:
                            o = qp.PauliZ(7)
                        if not (len(inner.queue) == 1 and inner.queue[0] is o):
                            viol("context_content_wrong", {"kind": "aq", "how": "inside_stop_recording_decorator",
                                                           "diff": "inner"}, {"observed": [describe(x) for x in inner.queue]})
                    if n > 0:
                        helper(n - 1)
                        check_stack_suspended()
                    elif spec["raise_inside"]:
                        raise Boom()

                def check_stack_suspended():
                    if QM.recording():
                        viol("recording_flag_wrong", {"where": "inside_stop_recording_decorator"},
                             {"expected": False, "observed": True})

                counters["stop_recording_decorator_calls"] = counters.get("stop_recording_decorator_calls", 0) + 1
                if s["depth"]:
                    counters["stop_recording_reentered"] = counters.get("stop_recording_reentered", 0) + 1
                try:
                    helper(s["depth"])
                finally:
                    if fr is not None and not fr.indeterminate and len(fr.obj.queue) != before:
                        viol("context_content_wrong", {"kind": fr.kind, "how": "stop_recording_decorator", "diff": "extra"},
                             {"context_sid": fr.sid, "recorded_while_suspended": len(fr.obj.queue) - before})
                        fr.indeterminate = True
            elif k == "lib":
                fr = active()
                counters["library_calls"] = counters.get("library_calls", 0) + 1
                order = int(s["which"][-1])
                terms = [qp.PauliX(0), qp.PauliZ(0)] + ([qp.PauliY(1)] if s["n"] > 1 else [])
                ham = qp.dot([0.5, 0.3, -0.2][:len(terms)], terms)
                top = qp.TrotterProduct(ham, 0.1, order=order)
                ops = top.decomposition()
                if fr is not None and not fr.indeterminate:
                    # the Hamiltonian and its terms are consumed by the template; the template and its
                    # decomposition are recorded
                    q_now = [o for o in fr.obj.queue if isinstance(o, (Operator, MP))]
                    known = {id(x.obj) for x in fr.items}
                    fresh = [o for o in q_now if id(o) not in known]
                    # (the returned list holds the operators the template computed under stop_recording;
                    # what is recorded are re-queued copies of them, so they are compared by value)
                    want = [top] + list(ops)
                    if not (len(fresh) == len(want) and fresh[0] is top
                            and all(a.name == b.name and a.wires == b.wires for a, b in zip(fresh[1:], want[1:]))):
                        viol("context_content_wrong", {"kind": fr.kind, "how": "library_template", "diff": "lib"},
                             {"expected": len(want), "observed": [describe(o) for o in fresh][:8]})
                        fr.indeterminate = True
                    else:
                        fr.items.extend(_Slot(o) for o in fresh)
            elif k == "mkqs":
                fr = active()
                before = len(fr.obj.queue) if fr is not None else 0
                made = []

                def qfunc():
                    for g in s["body"]:
                        made.append(build_gate(g))
                    if s["mp"]:
                        made.append(qp.expval(qp.PauliZ(0)))

                counters["make_qscript_calls"] = counters.get("make_qscript_calls", 0) + 1
                qs = qp.tape.make_qscript(qfunc)()
                got = list(qs.operations) + list(qs.measurements)
                if not (len(got) == len(made) and all(a is b for a, b in zip(got, made))):
                    viol("context_content_wrong", {"kind": "make_qscript", "how": "normal", "diff": "content"},
                         {"expected": [describe(x) for x in made], "observed": [describe(x) for x in got]})
                if fr is not None and not fr.indeterminate and len(fr.obj.queue) != before:
                    viol("context_content_wrong", {"kind": fr.kind, "how": "make_qscript_leaked_outwards", "diff": "extra"},
                         {"context_sid": fr.sid, "extra": len(fr.obj.queue) - before})
                    fr.indeterminate = True
            elif k == "apply_ctx":
                a = env.get(s["arg"])
                frames = stacks[-1]
                if a is None or not frames or isinstance(a, MP):
                    continue
                target = frames[max(0, len(frames) - 1 - s["up"])]
                counters["applies_to_explicit_context"] = counters.get("applies_to_explicit_context", 0) + 1
                before_active = len(active().obj.queue)
                obj = qp.apply(a, context=target.obj)
                if target is not active() and len(active().obj.queue) != before_active:
                    viol("context_content_wrong", {"kind": active().kind, "how": "apply_to_other_context", "diff": "extra"},
                         {"context_sid": active().sid})
                # a wrapper queued into a context takes its operands out of THAT context (they are recorded
                # only through the wrapper there), whether or not it is the active one
                def _consume_in(frame, o):
                    n0 = len(frame.items)
                    frame.items = [sl for sl in frame.items
                                   if not (sl.obj is o and not (sl.applied_from is not None and sl.obj is env.get(sl.applied_from)))]
                    if len(frame.items) != n0:
                        counters["consumed_operands"] += 1

                for attr in ("base", "obs"):
                    b = getattr(obj, attr, None)
                    if b is not None and isinstance(b, Operator):
                        _consume_in(target, b)
                for b in getattr(obj, "operands", ()) or ():
                    _consume_in(target, b)
                env[s["id"]] = obj
                target.items.append(_Slot(obj, s["id"], applied_from=s["arg"]))
            elif k == "raise":
                trace.log("raise")
                raise Boom()
            elif k == "bad":
                counters["pennylane_rejections"] += 1
                fr = active()
                try:
                    if s["which"] == "wire_count":
                        qp.CNOT(wires=[0])
                    elif s["which"] == "ctrl_overlap":
                        qp.ctrl(qp.PauliY(2), control=2)
                    else:
                        qp.sample(qp.PauliZ(0), wires=[0])
                    viol("missing_exception", {"which": s["which"]}, {})
                except Boom:
                    raise
                except Exception as e:  # noqa: BLE001
                    trace.log("rejected", s["sid"], s["which"], type(e).__name__)
                if fr is not None:
                    fr.indeterminate = True
            check_stack("after_" + k)

    try:
        run_block(case["program"])
    except Boom:
        pass
    except Exception as e:  # noqa: BLE001 - raised by PennyLane's own queuing machinery
        import traceback

        tb = traceback.extract_tb(e.__traceback__)
        where = next((f"{fr.filename.rsplit('/', 1)[-1]}:{fr.name}" for fr in reversed(tb)
                      if "/pennylane/" in fr.filename), "?")
        viol("unexpected_exception", {"where": "program", "raised_in": where}, {"error": repr(e)[:200]})
    # ---- after the program: everything must be back to normal ------------------------------------
    if QM.recording() or QM.active_context() is not None:
        viol("stack_not_restored", {"where": "program_end"},
             {"depth": len(getattr(QM, "_active_contexts", []))})
        # repair for the next run in this worker (the violation is already recorded)
        try:
            while QM.recording():
                QM.remove_active_queue()
        except Exception:  # noqa: BLE001
            pass
    probe_res = {}

    def probe(tag):
        try:
            with AQ() as q:
                a = qp.PauliX(0)
                b = qp.PauliY(1)
                c = qp.adjoint(b)
            with Tape() as tp:
                d = qp.PauliZ(2)
            probe_res[tag] = (len(q.queue) == 2 and q.queue[0] is a and q.queue[1] is c
                              and len(tp.operations) == 1 and tp.operations[0] is d)
        except Exception as e:  # noqa: BLE001
            probe_res[tag] = repr(e)[:100]

    probe("main")
    # A queuing lock still held by this thread after the program would block every other thread that
    # wants to record.  Detected without a second thread and without any wall-clock timeout (an earlier
    # version waited 2 s for a helper thread and raised a false alarm on a heavily loaded machine):
    # releasing an RLock this thread does not own raises RuntimeError, releasing one it owns succeeds.
    for lock_name, lk in (("AnnotatedQueue", AQ._lock), ("QuantumTape", Tape._lock)):
        leaked = 0
        try:
            while True:
                lk.release()
                leaked += 1
        except RuntimeError:
            pass
        if leaked:
            viol("queuing_lock_leaked", {"where": lock_name}, {"levels_still_held": leaked})
    for tag, ok in probe_res.items():
        if ok is not True:
            viol("probe_program_wrong", {"where": tag}, {"result": ok})
    try:
        with Tape() as t:
            qp.PauliZ(2)
        if len(t.operations) != 1:
            viol("probe_program_wrong", {"where": "tape"}, {"ops": [describe(o) for o in t.operations]})
    except Exception as e:  # noqa: BLE001
        viol("probe_program_wrong", {"where": "tape"}, {"result": repr(e)[:100]})
    if counters["exceptions_crossing_contexts"]:
        counters["fault:exception_crossing_context"] = counters["exceptions_crossing_contexts"]
    if counters["pennylane_rejections"]:
        counters["fault:pennylane_rejection_midway"] = counters["pennylane_rejections"]
    return {
        "violations": violations,
        "digest": trace.digest(),
        "nontrivial": bool(counters["exceptions_crossing_contexts"] or counters["consumed_operands"]
                           or counters["under_stop_recording"]),
        "counters": counters,
        "sim_time": 0.0,
        "case": case,
        "summary": {"crash_point": case.get("crash_point"), "statements": counters["statements"]},
    }


def _drop_variants(block):
    for i in range(len(block) - 1, -1, -1):
        st = block[i]
        yield block[:i] + block[i + 1:]
        if st["k"] == "ctx":
            yield block[:i] + st["body"] + block[i + 1:]  # unwrap the context
            for b in _drop_variants(st["body"]):
                yield block[:i] + [dict(st, body=b)] + block[i + 1:]


def shrink_candidates(case):
    for p in _drop_variants(case["program"]):
        yield dict(case, program=p)
