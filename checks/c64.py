"""C64 -- dataset attributes survive HDF5 round trips (write / open / append / copy histories).

Real code: qp.data.Dataset, DatasetAttribute subclasses, AttributeTypeMapper, hdf5.copy/copy_all,
h5py and the HDF5 C library (through h5py's fileobj driver).
Stub: the operating-system file (simkit.simfs.SimFS / SimFile), installed by replacing h5py.File with
a subclass that resolves path names inside the simulated file system.
"""
from __future__ import annotations

import errno

ID = "C64"
LEVEL = "exploration"
TIERS = {
    "quick": {"runs": 2500, "wall": 80, "chunk": 25, "shrink_s": 40, "run_cap_s": 120},
    "thorough": {"runs": 400_000, "wall": 840, "chunk": 50, "shrink_s": 120, "run_cap_s": 120},
}
RULE = (
    "one run = a history of <=12 operations over <=3 simulated paths and <=4 live dataset handles (create in "
    "memory, setattr, delattr, write(path, mode w|w-|a, attributes subset, overwrite), Dataset.open(path, "
    "r|a|w|w-|copy), read(path or handle, attributes, overwrite), close, re-open) on generated values "
    "(scalars, unicode strings, None, arrays of several dtypes incl. 0-d and empty, autograd tensors, nested "
    "lists/tuples/dicts, operators and operator arithmetic, sparse matrices, nested datasets); after every "
    "operation every readable attribute of every open handle and of the touched file is compared with a "
    "reference file-system model. In 15% of the runs one ENOSPC/EIO is injected at the k-th low-level "
    "write/flush/truncate/read of a seeded operation. distinct = distinct trace digest; non-trivial = the "
    "history re-opened a file written earlier, or appended/overwrote into an existing file, or a fault fired."
)
SIM_TIME_NOTE = "no clock on this path"
REAL = ["pennylane.data.Dataset / DatasetAttribute subclasses / AttributeTypeMapper / hdf5.copy_all",
        "h5py 3.16 + HDF5 C library (fileobj driver for simulated paths, core driver for in-memory groups)"]
STUBBED = ["operating-system files -> simkit.simfs.SimFS/SimFile (path -> bytes)"]
NOT_INJECTED = [
    "crash with lost un-flushed bytes, torn writes, flipped stored bytes: neither PennyLane nor HDF5 promises crash consistency",
    "two handles open on one path at the same time: HDF5 forbids it for writers; the generator keeps one handle per path",
    "unicode numpy arrays (h5py has no conversion path)",
]
ASSUMPTIONS = [
    "documented type relaxations, listed here and not discovered at run time: Python int/float/complex/bool read back as the numpy scalar of the same kind and value; list reads back as a list-like DatasetList; dict as a mapping DatasetDict; operators are compared with qp.equal; sparse matrices by format, shape, dtype and entries",
    "under an injected I/O fault the faulted operation may raise and the file it was writing (and handles bound to it) is no longer compared; every other file and handle is held to the strict oracle",
]

_ENV = {}
PATHS = ["/sim/a.h5", "/sim/b.h5", "/sim/c.h5"]
NAMES = ["x", "y", "z", "data", "ham", "meta"]


def preimport():
    setup()


def setup():
    if _ENV.get("ready"):
        return
    import warnings

    import numpy as np
    import pennylane as qp
    import scipy.sparse as sp
    from pennylane.data import Dataset

    from checks import qgen
    from simkit import simfs

    warnings.filterwarnings("ignore")
    simfs.install()
    import sys

    def _quiet_unraisable(u):  # h5py reports a failed flush during dealloc this way, after a fault
        _ENV["unraisable"] = _ENV.get("unraisable", 0) + 1

    sys.unraisablehook = _quiet_unraisable
    _ENV.update(qp=qp, np=np, sp=sp, Dataset=Dataset, qgen=qgen, simfs=simfs, ready=True)
    from simkit.core import Streams, derive_seed

    try:
        for i in range(40):
            run_case(dict(gen_case(Streams(derive_seed("warm", i)), "quick"), fault=None))
    except Exception:  # noqa: BLE001 - warm-up only
        pass
    import gc

    gc.collect()
    gc.freeze()


# ------------------------------------------------------------------------------------------------
# values
# ------------------------------------------------------------------------------------------------

DTYPES = ["int64", "int32", "int16", "float64", "float32", "float16", "complex128", "complex64", "bool", "uint8"]
KIND = {"int64": "i", "int32": "i", "int16": "i", "uint8": "u", "float64": "f", "float32": "f", "float16": "f",
        "complex128": "c", "complex64": "c", "bool": "b"}


def gen_value(w, depth=0):
    from checks import qgen

    r = w.random()
    if r < 0.10:
        return ["int", w.randint(-10**6, 10**6)]
    if r < 0.18:
        return ["float", round(w.uniform(-1e3, 1e3), 6)]
    if r < 0.22:
        return ["complex", round(w.uniform(-2, 2), 4), round(w.uniform(-2, 2), 4)]
    if r < 0.235:
        return ["npscalar", w.choice(["float32", "float16", "int16", "int32", "complex64"]), round(w.uniform(-100, 100), 3)]
    if r < 0.25:
        return ["bool", w.random() < 0.5]
    if r < 0.33:
        return ["str", w.choice(["", "a", "héllo ✓", "line\nbreak", "x" * 40, "ß∂ƒ", "0", "None"])]
    if r < 0.37:
        return ["none"]
    if r < 0.52:
        shape = w.choice([[], [0], [3], [2, 3], [0, 2], [2, 1, 2], [5]])
        return ["arr", w.choice(DTYPES), shape, w.getrandbits(24)]
    if r < 0.55:
        return ["tensor", w.choice([[2], [2, 2]]), w.getrandbits(24), w.random() < 0.5]
    if r < 0.66 and depth < 3:
        return ["list", [gen_value(w, depth + 1) for _ in range(w.choice([0, 1, 2, 3]))]]
    if r < 0.73 and depth < 3:
        return ["tuple", [gen_value(w, depth + 1) for _ in range(w.choice([0, 1, 2, 3]))]]
    if r < 0.81 and depth < 3:
        keys = w.sample(["a", "b", "key with space", "ü", "0", "nested", "%41", "a%2Fb", "50%25", "100%", "q=1&r", "5%Fe"],
                        w.choice([0, 1, 2, 3]))
        return ["dict", {k: gen_value(w, depth + 1) for k in keys}]
    if r < 0.88:
        k = w.random()
        if k < 0.5:
            return ["op", qgen.gen_ops(w, 3, 1)[0]]
        if k < 0.7:
            base = qgen.gen_ops(w, 2, 1, wires=[0, 1])[0]
            return ["op", w.choice([["adjoint", base], ["pow", base, 2], ["ctrl", base, [2], None]])]
        return ["obs", qgen.gen_obs(w, [0, 1, 2], allow_hermitian=w.random() < 0.5)]
    if r < 0.895:
        # a molecule (basis-set data ships with the package): geometry jittered, charge / multiplicity consistent
        sym, charge, mult = w.choice([(["H", "H"], 0, 1), (["He", "H"], 1, 1), (["H", "H", "H"], 1, 1), (["H"], 0, 2),
                                      (["Li", "H"], 0, 1)])
        coords = [[round(1.3 * i + w.uniform(-0.2, 0.2), 4), round(w.uniform(-0.3, 0.3), 4), 0.0] for i in range(len(sym))]
        return ["molecule", sym, coords, charge, mult, w.choice(["sto-3g", "sto-3g", "6-31g"])]
    if r < 0.94:
        return ["sparse", w.choice(["csr", "csc", "coo"]), w.randint(1, 4), w.randint(1, 4),
                w.getrandbits(24), w.choice(["float64", "complex128", "int64"])]
    if depth < 2:
        names = w.sample(NAMES, w.randint(0, 3))
        return ["dataset", {n: gen_value(w, depth + 2) for n in names}]
    return ["int", w.randint(0, 9)]


def build_value(spec):
    qp, np, sp, qgen = _ENV["qp"], _ENV["np"], _ENV["sp"], _ENV["qgen"]
    k = spec[0]
    if k in ("int", "float", "bool", "str"):
        return spec[1]
    if k == "complex":
        return complex(spec[1], spec[2])
    if k == "npscalar":
        return np.dtype(spec[1]).type(spec[2])
    if k == "none":
        return None
    if k in ("arr", "tensor"):
        if k == "arr":
            dtype, shape, seed = spec[1], spec[2], spec[3]
        else:
            dtype, shape, seed = "float64", spec[1], spec[2]
        g = np.random.Generator(np.random.PCG64(seed))
        n = int(np.prod(shape)) if shape else 1
        if dtype == "bool":
            a = g.integers(0, 2, size=n).astype(bool)
        elif dtype.startswith("complex"):
            a = (g.normal(size=n) + 1j * g.normal(size=n)).astype(dtype)
        elif dtype.startswith("float"):
            a = g.normal(size=n).astype(dtype)
        else:
            a = g.integers(0, 200, size=n).astype(dtype)
        a = a.reshape(shape)
        if k == "tensor":
            return qp.numpy.array(a, requires_grad=spec[3])
        return a
    if k == "list":
        return [build_value(s) for s in spec[1]]
    if k == "tuple":
        return tuple(build_value(s) for s in spec[1])
    if k == "dict":
        return {kk: build_value(v) for kk, v in spec[1].items()}
    if k == "op":
        return qgen.build_op(spec[1])
    if k == "obs":
        return qgen.build_obs(spec[1])
    if k == "sparse":
        fmt, n, m, seed, dtype = spec[1:]
        g = np.random.Generator(np.random.PCG64(seed))
        dense = g.integers(-3, 4, size=(n, m)) * (g.random(size=(n, m)) < 0.4)
        dense = dense.astype(dtype)
        if dtype == "complex128":
            dense = dense * (1 + 0.5j)
        return {"csr": sp.csr_matrix, "csc": sp.csc_matrix, "coo": sp.coo_matrix}[fmt](dense)
    if k == "molecule":
        return qp.qchem.Molecule(list(spec[1]), np.array(spec[2], dtype=float), charge=spec[3], mult=spec[4],
                                 basis_name=spec[5])
    if k == "dataset":
        return _ENV["Dataset"](**{n: build_value(v) for n, v in spec[1].items()})
    raise ValueError(k)


class _DSModel(dict):
    """Model value of a nested dataset: attribute name -> model value."""


def build_model(spec):
    """Like build_value, but nested datasets become _DSModel dicts (the model never holds HDF5 objects)."""
    k = spec[0]
    if k == "list":
        return [build_model(s) for s in spec[1]]
    if k == "tuple":
        return tuple(build_model(s) for s in spec[1])
    if k == "dict":
        return {kk: build_model(v) for kk, v in spec[1].items()}
    if k == "dataset":
        return _DSModel({n: build_model(v) for n, v in spec[1].items()})
    return build_value(spec)


def eqv(exp, got, path="$"):
    """None if `got` is an acceptable read-back of `exp`, else a short description of the difference."""
    qp, np, sp, Dataset = _ENV["qp"], _ENV["np"], _ENV["sp"], _ENV["Dataset"]
    from collections.abc import Mapping, Sequence

    if isinstance(exp, _DSModel):
        if not isinstance(got, Dataset):
            return f"{path}: expected Dataset, got {type(got).__name__}"
        en, gn = set(exp), set(got.list_attributes())
        if en != gn:
            return f"{path}: nested dataset attributes {sorted(gn)} != {sorted(en)}"
        for n in sorted(en):
            d = eqv(exp[n], getattr(got, n), f"{path}.{n}")
            if d:
                return d
        return None
    if exp is None:
        return None if got is None else f"{path}: expected None, got {got!r}"
    if isinstance(exp, qp.qchem.Molecule):
        if not isinstance(got, qp.qchem.Molecule):
            return f"{path}: expected Molecule, got {type(got).__name__}"
        for field in ("symbols", "charge", "mult", "basis_name", "n_electrons", "n_orbitals"):
            a, b = getattr(exp, field), getattr(got, field)
            if (list(a) != list(b)) if field == "symbols" else (a != b):
                return f"{path}.{field}: {b!r} != {a!r}"
        for field in ("coordinates", "l", "alpha", "coeff", "nuclear_charges"):
            a, b = getattr(exp, field), getattr(got, field)
            try:
                same_arr = len(a) == len(b) and all(np.array_equal(np.asarray(x), np.asarray(y)) for x, y in zip(a, b))
            except TypeError:
                same_arr = np.array_equal(np.asarray(a), np.asarray(b))
            if not same_arr:
                return f"{path}.{field}: values differ"
        return None
    if isinstance(exp, qp.numpy.tensor):
        if not isinstance(got, qp.numpy.tensor):
            return f"{path}: expected pennylane tensor, got {type(got).__name__}"
        if bool(exp.requires_grad) != bool(got.requires_grad):
            return f"{path}: requires_grad {got.requires_grad} != {exp.requires_grad}"
        exp, got = np.asarray(exp), np.asarray(got)
    if isinstance(exp, np.ndarray):
        if not isinstance(got, np.ndarray):
            return f"{path}: expected ndarray, got {type(got).__name__}"
        if exp.dtype != got.dtype or exp.shape != got.shape:
            return f"{path}: dtype/shape {got.dtype}{got.shape} != {exp.dtype}{exp.shape}"
        return None if np.array_equal(exp, got) else f"{path}: array values differ"
    if isinstance(exp, np.generic) and not isinstance(exp, np.bool_):
        ok = isinstance(got, np.generic) and got.dtype == exp.dtype and got == exp
        return None if ok else f"{path}: expected {exp.dtype} scalar {exp!r}, got {got!r} ({getattr(got, 'dtype', type(got).__name__)})"
    if isinstance(exp, bool):
        ok = isinstance(got, (bool, np.bool_)) and bool(got) == exp
        return None if ok else f"{path}: expected bool {exp}, got {got!r}"
    if isinstance(exp, int):
        ok = isinstance(got, (int, np.integer)) and not isinstance(got, (bool, np.bool_)) and int(got) == exp
        return None if ok else f"{path}: expected int {exp}, got {got!r}"
    if isinstance(exp, float):
        ok = isinstance(got, (float, np.floating)) and float(got) == exp
        return None if ok else f"{path}: expected float {exp}, got {got!r}"
    if isinstance(exp, complex):
        ok = isinstance(got, (complex, np.complexfloating)) and complex(got) == exp
        return None if ok else f"{path}: expected complex {exp}, got {got!r}"
    if isinstance(exp, str):
        return None if isinstance(got, str) and got == exp else f"{path}: expected str {exp!r}, got {got!r}"
    if isinstance(exp, tuple):
        if not isinstance(got, tuple) or len(got) != len(exp):
            return f"{path}: expected tuple of {len(exp)}, got {type(got).__name__} {got!r:.60}"
        for i, (a, b) in enumerate(zip(exp, got)):
            d = eqv(a, b, f"{path}[{i}]")
            if d:
                return d
        return None
    if isinstance(exp, list):
        if isinstance(got, (str, tuple)) or not isinstance(got, Sequence) or len(got) != len(exp):
            return f"{path}: expected list of {len(exp)}, got {type(got).__name__} {got!r:.60}"
        for i, a in enumerate(exp):
            d = eqv(a, got[i], f"{path}[{i}]")
            if d:
                return d
        # the same elements in the same order by iteration (a second access path through the container)
        walked = list(iter(got))
        if len(walked) != len(exp):
            return f"{path}: iteration yields {len(walked)} elements, expected {len(exp)}"
        for i, a in enumerate(exp):
            d = eqv(a, walked[i], f"{path}<iter {i}>")
            if d:
                return d
        return None
    if isinstance(exp, dict):
        if not isinstance(got, Mapping) or set(got.keys()) != set(exp.keys()):
            return f"{path}: expected mapping with keys {sorted(exp)}, got {type(got).__name__} {got!r:.60}"
        for kk in exp:
            d = eqv(exp[kk], got[kk], f"{path}[{kk!r}]")
            if d:
                return d
        items = dict(got.items())
        if set(items) != set(exp):
            return f"{path}: items() yields keys {sorted(items)}, expected {sorted(exp)}"
        for kk in exp:
            d = eqv(exp[kk], items[kk], f"{path}<items {kk!r}>")
            if d:
                return d
        return None
    if sp.issparse(exp):
        if not sp.issparse(got) or got.format != exp.format or got.shape != exp.shape or got.dtype != exp.dtype:
            return f"{path}: sparse format/shape/dtype differ: {got!r:.80}"
        return None if (exp != got).nnz == 0 else f"{path}: sparse entries differ"
    if isinstance(exp, qp.operation.Operator):
        if not isinstance(got, qp.operation.Operator) or type(got) is not type(exp):
            return f"{path}: expected {type(exp).__name__}, got {type(got).__name__}"
        try:
            same = qp.equal(exp, got)
        except Exception as e:  # noqa: BLE001
            return f"{path}: qp.equal raised {e!r:.80}"
        return None if same else f"{path}: operator {got} != {exp}"
    return f"{path}: unsupported expected type {type(exp).__name__}"


# ------------------------------------------------------------------------------------------------
# generation
# ------------------------------------------------------------------------------------------------


def _variant(w, spec):
    """Same shape and kind of data, different width (the overwrite keeps the layout but not the dtype)."""
    if spec[0] == "arr":
        same_kind = [d for d in DTYPES if KIND[d] == KIND[spec[1]] and d != spec[1]]
        if same_kind:
            return ["arr", w.choice(same_kind), spec[2], w.getrandbits(24)]
    if spec[0] == "float":
        return ["npscalar", w.choice(["float32", "float16"]), round(w.uniform(-100, 100), 3)]
    if spec[0] == "int":
        return ["npscalar", w.choice(["int16", "int32"]), float(w.randint(-30000, 30000))]
    if spec[0] == "npscalar":
        return ["float", round(w.uniform(-1e3, 1e3), 6)] if spec[1].startswith("float") else ["int", w.randint(-10**6, 10**6)]
    return None


def gen_case(streams, tier):
    w, f = streams["workload"], streams["fault"]
    ops = []
    n_handles = 0
    last = {}  # attribute name -> last value spec generated for it

    def value_for(name):
        v = None
        if name in last and w.random() < 0.4:
            v = _variant(w, last[name])
        if v is None:
            v = gen_value(w)
        last[name] = v
        return v

    for _ in range(w.randint(2, 12)):
        r = w.random()
        hs = list(range(n_handles))
        if r < 0.18 or not hs:
            attrs = {n: value_for(n) for n in w.sample(NAMES, w.randint(0, 4))}
            ops.append({"op": "new", "attrs": attrs})
            n_handles += 1
        elif r < 0.36:
            nm = w.choice(NAMES)
            ops.append({"op": "set", "h": w.choice(hs), "name": nm, "value": value_for(nm),
                        "as_attribute_object": w.random() < 0.35})
        elif r < 0.40:
            ops.append({"op": "del", "h": w.choice(hs), "name": w.choice(NAMES)})
        elif r < 0.42:
            # nested datasets: store one, store it AGAIN under another name from the stored object (a copy, by
            # the property: both read back what was written), then change one of the two from the inside
            h_n = w.choice(hs)
            src, dst = w.sample(NAMES, 2)
            spec = ["dataset", {n_: gen_value(w, 2) for n_ in w.sample(NAMES, w.randint(1, 3))}]
            last[src] = spec
            ops.append({"op": "set", "h": h_n, "name": src, "value": spec, "as_attribute_object": True})
            ops.append({"op": "alias_set", "h": h_n, "name": dst, "from": src, "in_list": w.random() < 0.3})
            last[dst] = ["int", 0]
            for _ in range(w.randint(1, 2)):
                ops.append({"op": "nested_set", "h": h_n, "name": w.choice([src, src, dst]), "attr": w.choice(NAMES),
                            "value": gen_value(w, 2), "delete": w.random() < 0.25})
        elif r < 0.47:
            # in-place edit of a list / dict attribute through the object the dataset hands out
            h_ed = w.choice(hs)
            cands = [n for n in last if last[n][0] in ("list", "dict")]
            if cands and w.random() < 0.6:
                nm = w.choice(cands)
            else:
                # make sure there is a container to edit: assign one first, on the same handle
                nm = w.choice(NAMES)
                if w.random() < 0.7:
                    spec = ["list", [gen_value(w, 2) for _ in range(w.randint(2, 5))]]
                else:
                    spec = ["dict", {f"k{i}": gen_value(w, 2) for i in range(w.randint(1, 3))}]
                last[nm] = spec
                ops.append({"op": "set", "h": h_ed, "name": nm, "value": spec, "as_attribute_object": True})
            is_list = last[nm][0] == "list"
            for _ in range(w.randint(1, 3)):
                ops.append({"op": "edit", "h": h_ed, "name": nm,
                            "act": w.choice(["setitem", "setitem", "insert", "insert", "append", "delitem", "pop"]
                                            if is_list else ["dict_set", "dict_set", "dict_del"]),
                            "idx": w.getrandbits(12), "value": gen_value(w, 2)})
        elif r < 0.65:
            ops.append({"op": "write", "h": w.choice(hs), "path": w.choice(PATHS),
                        "mode": w.choice(["w", "w", "a", "a", "w-"]),
                        "subset": w.random() < 0.3, "pick": w.getrandbits(16),
                        "overwrite": w.random() < 0.5})
        elif r < 0.80:
            ops.append({"op": "open", "path": w.choice(PATHS),
                        "mode": w.choice(["r", "r", "a", "a", "copy", "w", "w-"])})
            n_handles += 1
        elif r < 0.90:
            src_kind = w.choice(["path", "path", "handle"])
            ops.append({"op": "read", "h": w.choice(hs), "src": src_kind,
                        "path": w.choice(PATHS), "sh": w.choice(hs),
                        "subset": w.random() < 0.3, "pick": w.getrandbits(16),
                        "overwrite": w.random() < 0.5})
        else:
            ops.append({"op": "close", "h": w.choice(hs)})
    # bias: a second write into the same path (append / overwrite into an existing file)
    for i in range(len(ops) - 1, -1, -1):
        if ops[i]["op"] == "write" and w.random() < 0.3 and len(ops) < 14 and n_handles:
            ops.insert(i + 1, {"op": "write", "h": w.randrange(n_handles), "path": ops[i]["path"],
                               "mode": "a", "subset": w.random() < 0.3, "pick": w.getrandbits(16),
                               "overwrite": w.random() < 0.5})
    # bias: a write is often followed by re-opening the same path
    for i in range(len(ops) - 1, -1, -1):
        if ops[i]["op"] == "write" and w.random() < 0.45 and len(ops) < 14:
            ops.insert(i + 1, {"op": "open", "path": ops[i]["path"], "mode": w.choice(["r", "a", "copy"])})
    fault = None
    if f.random() < 0.15:
        # the fault lands on one of the low-level calls (of the listed kinds) this very history performs:
        # `frac` picks it among them; run_case resolves it to ["at" = operation index, call within it] by a
        # fault-free dry run of the same history and records that in the case (replay needs no dry run)
        fault = {"frac": round(f.random(), 6), "errno": f.choice([errno.ENOSPC, errno.EIO]),
                 "kinds": f.choice([["write"], ["write", "flush", "truncate"], ["read"], ["truncate"], ["flush"],
                                    ["write", "read", "flush", "truncate"], ["write", "read", "flush", "truncate"]])}
    if fault and not any(o["op"] == "write" for o in ops):
        # a fault without file traffic tests nothing: give the history one write and a re-open (fault stream
        # only, so the workload stream is unperturbed)
        i = next((j for j, o in enumerate(ops) if o["op"] == "new"), None)
        if i is not None:
            path = f.choice(PATHS)
            ops.insert(i + 1, {"op": "write", "h": 0, "path": path, "mode": "w", "subset": False, "pick": 0,
                               "overwrite": True})
            ops.append({"op": "open", "path": path, "mode": f.choice(["r", "a", "copy"])})
    return {"ops": ops, "fault": fault}


# ------------------------------------------------------------------------------------------------
# execution
# ------------------------------------------------------------------------------------------------


class _H:
    __slots__ = ("ds", "kind", "path", "ro", "closed", "attrs", "tainted")

    def __init__(self, ds, kind, path=None, ro=False, attrs=None):
        self.ds, self.kind, self.path, self.ro = ds, kind, path, ro
        self.closed = False
        self.attrs = attrs  # model dict (shared with the model file system for file handles)
        self.tainted = False


class _FaultServer:
    """A forked copy of this worker that executes fault-injecting histories, one JSON line in, one out.

    After an injected I/O error the HDF5 C library's process-global state is not trustworthy any more
    (later, unrelated histories were seen to crash with SIGSEGV), so that damage is confined to this
    child, which is recycled every `MAX_USES` histories and respawned if it dies."""

    MAX_USES = 30

    def __init__(self):
        import os

        c2p_r, c2p_w = os.pipe()
        p2c_r, p2c_w = os.pipe()
        pid = os.fork()
        if pid == 0:
            import json

            try:
                os.close(c2p_r)
                os.close(p2c_w)
                _ENV["in_child"] = True
                # h5py prints a traceback for every failed file-object callback: expected noise here
                os.dup2(os.open(os.devnull, os.O_WRONLY), 2)
                fin = os.fdopen(p2c_r, "r")
                fout = os.fdopen(c2p_w, "w")
                for line in fin:
                    out = _run_case(json.loads(line))
                    fout.write(json.dumps(out, default=str) + "\n")
                    fout.flush()
            except BaseException:  # noqa: BLE001
                os._exit(3)
            os._exit(0)
        os.close(c2p_w)
        os.close(p2c_r)
        self.pid = pid
        self.fin = os.fdopen(c2p_r, "r")
        self.fout = os.fdopen(p2c_w, "w")
        self.uses = 0
        self.owner = os.getpid()

    def run(self, case):
        import json

        self.uses += 1
        try:
            self.fout.write(json.dumps(case) + "\n")
            self.fout.flush()
            line = self.fin.readline()
        except (BrokenPipeError, OSError):
            line = ""
        return json.loads(line) if line else None

    def stop(self):
        import os

        for f in (self.fout, self.fin):
            try:
                f.close()
            except Exception:  # noqa: BLE001
                pass
        try:
            os.waitpid(self.pid, 0)
        except ChildProcessError:
            pass


def run_case(case):
    import os

    if not case.get("fault") or _ENV.get("in_child"):
        return _run_case(case)
    srv = _ENV.get("fault_server")
    if srv is not None and (srv.owner != os.getpid() or srv.uses >= _FaultServer.MAX_USES):
        if srv.owner == os.getpid():
            srv.stop()
        srv = None
    if srv is None:
        srv = _ENV["fault_server"] = _FaultServer()
    out = srv.run(case)
    if out is None:
        # third-party crash (HDF5) under an injected fault: counted, not attributed to PennyLane
        srv.stop()
        _ENV["fault_server"] = None
        return {"violations": [], "digest": "crash" + str(case["fault"]), "nontrivial": True,
                "counters": {"ops": 0, "fault:hdf5_process_crash_under_fault": 1}, "sim_time": 0.0,
                "case": case, "summary": {"note": "fault child died"}}
    return out


def _run_case(case, _record=False):
    import gc

    fault = case.get("fault")
    if fault and "at" not in fault:
        dry = _run_case(dict(case, fault=None), _record=True)
        kinds = dry.pop("_io_kinds")
        if dry["violations"]:
            return dry
        matching = [(oi, ci + 1) for oi, ks in kinds for ci, kd in enumerate(ks) if kd in fault["kinds"]]
        if not matching:
            dry["counters"]["fault_plans_without_matching_io"] = 1
            dry["case"] = dict(case, fault=None)
            return dry
        # first the operation (uniform over operations with matching traffic, so that short ones -- set/del on
        # a file-bound handle, close -- are hit as often as long writes), then the call within it
        ops_with = sorted({oi for oi, _ in matching})
        x = fault["frac"] * len(ops_with)
        oi_pick = ops_with[min(len(ops_with) - 1, int(x))]
        calls = [cc for oi, cc in matching if oi == oi_pick]
        at = (oi_pick, calls[min(len(calls) - 1, int((x - int(x)) * len(calls)))])
        case = dict(case, fault=dict(fault, at=list(at)))

    from simkit.core import Trace

    Dataset, simfs = _ENV["Dataset"], _ENV["simfs"]
    fs = simfs.SimFS()
    simfs.use(fs)
    trace = Trace(keep=False)
    violations = []
    counters = {"ops": 0, "values_written": 0, "attrs_compared": 0, "files_verified": 0,
                "reopen_after_write": 0, "append_into_existing": 0, "expected_errors": 0}
    mfs: dict = {}  # model file system: path -> {attr: live value}
    tainted_paths = set()
    handles: list = []
    written_paths = set()

    def viol(klass, sig, detail):
        if len(violations) < 4:
            violations.append({"klass": klass, "sig": sig, "detail": detail})

    def kind_of(v):
        return type(v).__name__

    def path_open(p):
        return any((not h.closed) and h.kind == "file" and h.path == p for h in handles)

    def compare_view(ds, model, where, what):
        try:
            names = list(ds.list_attributes())
        except Exception as e:  # noqa: BLE001
            viol("unexpected_exception", {"where": where, "during": "list_attributes"},
                 {"what": what, "error": repr(e)[:200]})
            return
        if set(names) != set(model):
            viol("attribute_set_differs", {"where": where},
                 {"what": what, "expected": sorted(model), "observed": sorted(names)})
            return
        for n in sorted(model):
            counters["attrs_compared"] += 1
            try:
                got = getattr(ds, n)
            except Exception as e:  # noqa: BLE001
                viol("unexpected_exception", {"where": where, "during": "getattr", "vtype": kind_of(model[n])},
                     {"what": what, "attr": n, "error": repr(e)[:200]})
                return
            try:
                d = eqv(model[n], got, n)
            except Exception as e:  # noqa: BLE001
                d = f"comparison raised {e!r:.100}"
            if d:
                viol("value_differs", {"where": where, "vtype": kind_of(model[n])},
                     {"what": what, "diff": d})
                return

    def verify_all(touched):
        for i, h in enumerate(handles):
            if h.closed or h.tainted:
                continue
            compare_view(h.ds, h.attrs, "open_handle", f"handle {i} ({h.kind})")
        for p in touched:
            if p in tainted_paths or path_open(p) or p not in mfs:
                continue
            counters["files_verified"] += 1
            try:
                d = Dataset.open(p, "r")
            except Exception as e:  # noqa: BLE001
                viol("unexpected_exception", {"where": "reopen", "during": "open"},
                     {"path": p, "error": repr(e)[:200]})
                continue
            try:
                compare_view(d, mfs[p], "reopened_file", p)
            finally:
                try:
                    d.close()
                except Exception:  # noqa: BLE001
                    pass
        # files the model does not know must not exist
        for p in list(fs.files):
            if p not in mfs and p not in tainted_paths and len(fs.files[p]) and not path_open(p):
                viol("unexpected_file", {"where": "fs"}, {"path": p})

    def expect_error(fn, what, allow_success=False):
        try:
            fn()
        except Exception as e:  # noqa: BLE001
            counters["expected_errors"] += 1
            trace.log("error", what, type(e).__name__)
            return True
        if not allow_success:
            viol("missing_exception", {"what": what}, {})
        return False

    fault = case.get("fault")
    fired_before = 0
    io_kinds = []
    if _record:
        fs.kind_log = []
    try:
        for oi, op in enumerate(case["ops"]):
            counters["ops"] += 1
            k = op["op"]
            touched = []
            if _record:
                fs.kind_log.clear()  # the oracle's own read-back after the previous operation is not a fault site
            faulted = fault is not None and oi == fault["at"][0]
            fs.begin_op((fault["at"][1], fault["errno"], tuple(fault["kinds"])) if faulted else None)
            trace.log("op", oi, k)
            raised = None
            target_paths = []
            try:
                if k == "new":
                    vals = {n: build_value(s) for n, s in op["attrs"].items()}
                    counters["values_written"] += len(vals)
                    ds = Dataset(**vals)
                    handles.append(_H(ds, "mem", attrs={n: build_model(s) for n, s in op["attrs"].items()}))
                elif k in ("set", "del"):
                    if op["h"] >= len(handles):
                        continue
                    h = handles[op["h"]]
                    if h.kind == "file":
                        target_paths = [h.path]
                    if h.closed or h.tainted:
                        continue
                    if k == "set":
                        val = build_value(op["value"])
                        if h.ro:
                            expect_error(lambda: setattr(h.ds, op["name"], val), "set_readonly")
                        elif op.get("as_attribute_object"):
                            # ds.name = qp.data.attribute(value) is the documented way to REPLACE an
                            # existing attribute (a plain value over an existing key is rejected by h5py)
                            counters["values_written"] += 1
                            counters["attribute_object_assignments"] = counters.get("attribute_object_assignments", 0) + 1
                            setattr(h.ds, op["name"], _ENV["qp"].data.attribute(val))
                            h.attrs[op["name"]] = build_model(op["value"])
                        elif op["name"] in h.attrs:
                            # Re-assigning an existing attribute is rejected by h5py ("name already
                            # exists") in this version.  The property is about values reading back
                            # equal, not about replace being supported: either outcome is accepted,
                            # and whichever value the model then holds must read back.
                            if not expect_error(lambda: setattr(h.ds, op["name"], val), "set_existing",
                                                allow_success=True):
                                h.attrs[op["name"]] = build_model(op["value"])
                                counters["values_written"] += 1
                        else:
                            counters["values_written"] += 1
                            setattr(h.ds, op["name"], val)
                            h.attrs[op["name"]] = build_model(op["value"])
                    else:
                        if op["name"] not in h.attrs or h.ro:
                            expect_error(lambda: delattr(h.ds, op["name"]), "del_missing_or_readonly")
                        else:
                            delattr(h.ds, op["name"])
                            del h.attrs[op["name"]]
                    if h.kind == "file":
                        touched.append(h.path)
                elif k in ("alias_set", "nested_set"):
                    if op["h"] >= len(handles):
                        continue
                    h = handles[op["h"]]
                    if h.kind == "file":
                        target_paths = [h.path]
                    if h.closed or h.tainted or h.ro:
                        continue
                    import copy as _copy

                    if k == "alias_set":
                        cur = h.attrs.get(op["from"])
                        if not isinstance(cur, _DSModel) or op["name"] in h.attrs:
                            continue
                        stored = getattr(h.ds, op["from"])
                        counters["nested_datasets_stored_again"] = counters.get("nested_datasets_stored_again", 0) + 1
                        if op["in_list"]:
                            setattr(h.ds, op["name"], [stored])
                            h.attrs[op["name"]] = [_copy.deepcopy(cur)]
                        else:
                            setattr(h.ds, op["name"], stored)
                            h.attrs[op["name"]] = _copy.deepcopy(cur)
                    else:
                        cur = h.attrs.get(op["name"])
                        in_list = isinstance(cur, list) and len(cur) == 1 and isinstance(cur[0], _DSModel)
                        if not (isinstance(cur, _DSModel) or in_list):
                            continue
                        nested = getattr(h.ds, op["name"])
                        nested_model = cur
                        if in_list:
                            nested, nested_model = nested[0], cur[0]
                        new_model = _DSModel(nested_model)
                        counters["nested_dataset_edits"] = counters.get("nested_dataset_edits", 0) + 1
                        if op["delete"]:
                            if not nested_model:
                                continue
                            victim = sorted(nested_model)[0]
                            delattr(nested, victim)
                            del new_model[victim]
                        elif op["attr"] in nested_model:
                            continue  # re-assignment of an existing attribute: covered by "set"
                        else:
                            setattr(nested, op["attr"], build_value(op["value"]))
                            new_model[op["attr"]] = build_model(op["value"])
                        h.attrs[op["name"]] = [new_model] if in_list else new_model
                    if h.kind == "file":
                        touched.append(h.path)
                elif k == "edit":
                    if op["h"] >= len(handles):
                        continue
                    h = handles[op["h"]]
                    if h.kind == "file":
                        target_paths = [h.path]
                    if h.closed or h.tainted or h.ro:
                        continue
                    cur = h.attrs.get(op["name"])
                    act, idx = op["act"], op["idx"]
                    want_dict = act.startswith("dict_")
                    if (want_dict and type(cur) is not dict) or (not want_dict and type(cur) is not list):
                        continue
                    if act in ("setitem", "delitem", "pop") and not cur:
                        continue
                    if act == "dict_del" and not cur:
                        continue
                    obj = getattr(h.ds, op["name"])
                    val, mval = build_value(op["value"]), build_model(op["value"])
                    counters["in_place_edits"] = counters.get("in_place_edits", 0) + 1
                    # the model value is replaced, never mutated: other model files may share the old object
                    if act == "setitem":
                        i = idx % len(cur)
                        obj[i] = val
                        h.attrs[op["name"]] = cur[:i] + [mval] + cur[i + 1:]
                    elif act == "insert":
                        i = idx % (len(cur) + 1)
                        obj.insert(i, val)
                        h.attrs[op["name"]] = cur[:i] + [mval] + cur[i:]
                    elif act == "append":
                        obj.append(val)
                        h.attrs[op["name"]] = cur + [mval]
                    elif act == "delitem":
                        i = idx % len(cur)
                        del obj[i]
                        h.attrs[op["name"]] = cur[:i] + cur[i + 1:]
                    elif act == "pop":
                        obj.pop()
                        h.attrs[op["name"]] = cur[:-1]
                    elif act == "dict_set":
                        keys = sorted(cur)
                        key = keys[idx % len(keys)] if keys and idx % 2 else f"k{idx % 4}"
                        obj[key] = val
                        h.attrs[op["name"]] = dict(cur, **{key: mval})
                    else:
                        keys = sorted(cur)
                        key = keys[idx % len(keys)]
                        del obj[key]
                        h.attrs[op["name"]] = {a: b for a, b in cur.items() if a != key}
                    if h.kind == "file":
                        touched.append(h.path)
                elif k == "write":
                    if op["h"] >= len(handles):
                        continue
                    h = handles[op["h"]]
                    p, mode = op["path"], op["mode"]
                    target_paths = [p]
                    if h.closed or h.tainted or path_open(p) or p in tainted_paths:
                        continue
                    names = sorted(h.attrs)
                    subset = None
                    if op["subset"] and names:
                        subset = [n for i, n in enumerate(names) if (op["pick"] >> i) & 1] or names[:1]
                    exists = p in mfs
                    if mode == "w-" and exists:
                        expect_error(lambda: h.ds.write(p, mode=mode, attributes=subset, overwrite=op["overwrite"]),
                                     "write_exclusive_exists")
                    else:
                        h.ds.write(p, mode=mode, attributes=subset, overwrite=op["overwrite"])
                        base = {} if (mode == "w" or not exists) else mfs[p]
                        if exists and mode == "a":
                            counters["append_into_existing"] += 1
                        for n in (subset if subset is not None else names):
                            if n in base and not op["overwrite"]:
                                continue
                            base[n] = h.attrs[n]
                        mfs[p] = base
                        written_paths.add(p)
                    touched.append(p)
                elif k == "open":
                    p, mode = op["path"], op["mode"]
                    target_paths = [p]
                    if path_open(p) or p in tainted_paths:
                        handles.append(_H(None, "mem", attrs={}))
                        handles[-1].closed = True
                        continue
                    exists = p in mfs
                    if (mode in ("r", "copy") and not exists) or (mode == "w-" and exists):
                        expect_error(lambda: Dataset.open(p, mode), "open_wrong_mode")
                        handles.append(_H(None, "mem", attrs={}))
                        handles[-1].closed = True
                    else:
                        ds = Dataset.open(p, mode)
                        if exists and p in written_paths and mode in ("r", "a", "copy"):
                            counters["reopen_after_write"] += 1
                        if mode == "copy":
                            handles.append(_H(ds, "mem", attrs=dict(mfs[p])))
                        else:
                            if mode in ("w", "w-") or not exists:
                                mfs[p] = {}
                            handles.append(_H(ds, "file", path=p, ro=(mode == "r"), attrs=mfs[p]))
                    touched.append(p)
                elif k == "read":
                    if op["h"] >= len(handles):
                        continue
                    h = handles[op["h"]]
                    if h.closed or h.tainted:
                        continue
                    if h.kind == "file":
                        target_paths = [h.path]
                    if op["src"] == "path":
                        p = op["path"]
                        if path_open(p) or p in tainted_paths:
                            continue
                        target_paths = target_paths + [p]
                        if p not in mfs:
                            expect_error(lambda: h.ds.read(p), "read_missing_file")
                            continue
                        src_attrs, src = mfs[p], p
                        sh = None
                    else:
                        if op["sh"] >= len(handles) or op["sh"] == op["h"]:
                            continue
                        sh = handles[op["sh"]]
                        if sh.closed or sh.tainted:
                            continue
                        src_attrs, src = sh.attrs, sh.ds
                        if sh.kind == "file":
                            target_paths = target_paths + [sh.path]
                    names = sorted(src_attrs)
                    subset = None
                    if op["subset"] and names:
                        subset = [n for i, n in enumerate(names) if (op["pick"] >> i) & 1] or names[:1]
                    will_copy = [n for n in (subset if subset is not None else names)
                                 if not (n in h.attrs and not op["overwrite"])]
                    if h.ro:
                        # copying the dataset info into a read-only destination fails even when no
                        # attribute needs copying; nothing may change either way
                        expect_error(lambda: h.ds.read(src, attributes=subset, overwrite=op["overwrite"]),
                                     "read_into_readonly", allow_success=not will_copy)
                        if sh is not None:
                            # whether the source handle was closed before the error is unspecified
                            sh.tainted = True
                    else:
                        h.ds.read(src, attributes=subset, overwrite=op["overwrite"])
                        for n in will_copy:
                            h.attrs[n] = src_attrs[n]
                        if sh is not None:
                            sh.closed = True  # Dataset.read closes its source
                    if h.kind == "file":
                        touched.append(h.path)
                elif k == "close":
                    if op["h"] >= len(handles):
                        continue
                    h = handles[op["h"]]
                    if h.closed:
                        continue
                    if h.kind == "file":
                        target_paths = [h.path]
                        touched.append(h.path)
                    if h.tainted:
                        try:
                            h.ds.close()
                        except Exception:  # noqa: BLE001 - closing a handle that saw an I/O fault may fail
                            pass
                    else:
                        h.ds.close()
                    h.closed = True
            except Exception as e:  # noqa: BLE001 - classified below
                raised = e
            raised_repr = None
            if raised is not None:
                raised_repr = (type(raised).__name__, repr(raised)[:300])
                raised = True
            # Dataset.write leaves closing its destination to the reference counter / garbage
            # collector; a young-generation pass is enough for the frames of a failed call
            gc.collect(1)
            fired = len(fs.faults_fired) > fired_before
            fired_before = len(fs.faults_fired)
            if _record:
                io_kinds.append((oi, list(fs.kind_log)))
                fs.kind_log.clear()
            fs.begin_op(None)
            if fired:
                counters["fault:" + fs.faults_fired[-1][0] + "_error"] = 1
                # the file that saw the fault, and everything bound to it, is no longer compared
                bad = {fs.faults_fired[-1][2]} | set(target_paths)
                tainted_paths.update(bad)
                for h in handles:
                    if h.kind == "file" and h.path in bad:
                        h.tainted = True
                if k in ("set", "del", "edit", "alias_set", "nested_set", "read", "write", "new") and op.get("h") is not None and op["h"] < len(handles):
                    handles[op["h"]].tainted = True
                if k == "read" and op.get("src") == "handle" and op["sh"] < len(handles):
                    handles[op["sh"]].tainted = True
                trace.log("fault", oi, fs.faults_fired[-1][:2], raised_repr[0] if raised else None)
            elif raised is not None:
                viol("unexpected_exception", {"where": "operation", "op": k},
                     {"op_index": oi, "op": {kk: vv for kk, vv in op.items() if kk not in ("attrs", "value")},
                      "error": raised_repr[1]})
                break
            verify_all(touched)
            if violations:
                break
    finally:
        for h in handles:
            if h.ds is not None and not h.closed:
                try:
                    h.ds.close()
                except Exception:  # noqa: BLE001
                    pass
        handles.clear()
        gc.collect()
        simfs.use(None)
    for kk, vv in fs.calls.items():
        counters["lowlevel_" + kk] = vv
    nontrivial = bool(counters["reopen_after_write"] or counters["append_into_existing"] or fs.faults_fired)
    if fault is not None and not fs.faults_fired and not violations:
        counters["fault_armed_but_not_reached"] = 1
    extra = {"_io_kinds": io_kinds} if _record else {}
    return {
        **extra,
        "violations": violations,
        "digest": trace.digest(),
        "nontrivial": nontrivial,
        "counters": counters,
        "sim_time": 0.0,
        "case": case,
        "summary": {"ops": [o["op"] for o in case["ops"]], "faults_fired": [list(x) for x in fs.faults_fired]},
    }


def _shrink_value(spec):
    k = spec[0]
    if k in ("list", "tuple"):
        for i in range(len(spec[1])):
            yield [k, spec[1][:i] + spec[1][i + 1:]]
        for i, s in enumerate(spec[1]):
            for t in _shrink_value(s):
                yield [k, spec[1][:i] + [t] + spec[1][i + 1:]]
    elif k in ("dict", "dataset"):
        for kk in spec[1]:
            yield [k, {a: b for a, b in spec[1].items() if a != kk}]
        for kk, s in spec[1].items():
            for t in _shrink_value(s):
                yield [k, dict(spec[1], **{kk: t})]
    elif k != "int":
        yield ["int", 1]


def shrink_candidates(case):
    from simkit.runner import shrink_list

    ops = case["ops"]
    # removing an op that creates a handle would renumber later handles: replace it by a closed dummy
    for i in range(len(ops) - 1, -1, -1):
        if ops[i]["op"] in ("new", "open"):
            continue
        fl = case.get("fault")
        if fl and "at" in fl:
            if i == fl["at"][0]:
                continue
            fl = dict(fl, at=[fl["at"][0] - (1 if i < fl["at"][0] else 0), fl["at"][1]])
        yield dict(case, ops=ops[:i] + ops[i + 1:], fault=fl)
    if case["fault"]:
        yield dict(case, fault=None)
    for i, o in enumerate(ops):
        if o["op"] == "new":
            for n in o["attrs"]:
                yield dict(case, ops=ops[:i] + [dict(o, attrs={a: b for a, b in o["attrs"].items() if a != n})] + ops[i + 1:])
            for n, s in o["attrs"].items():
                for t in _shrink_value(s):
                    yield dict(case, ops=ops[:i] + [dict(o, attrs=dict(o["attrs"], **{n: t}))] + ops[i + 1:])
        elif o["op"] == "set":
            for t in _shrink_value(o["value"]):
                yield dict(case, ops=ops[:i] + [dict(o, value=t)] + ops[i + 1:])
        elif o["op"] in ("write", "read") and o.get("subset"):
            yield dict(case, ops=ops[:i] + [dict(o, subset=False)] + ops[i + 1:])
