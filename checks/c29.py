"""C29 -- finite-shot sampling follows the Born rule (numpy and JAX generators, shot vectors).

The sampler is "offer a distribution over basis states to the RNG" composed with "turn the returned
indices into results".  The simulator owns the RNG, so both halves are checked exactly:
 (i)  every offered distribution, pushed through PennyLane's per-shot value map of some requested
      measurement, equals the reference distribution of that measurement (Born rule, valid
      eigenvalues/bitstrings), every measurement is fed by offers whose sizes add up to its shots;
 (ii) the results returned to the user are the documented aggregation (per shot-vector bin: samples,
      counts, mean, variance, frequencies) of the indices the simulator chose to return -- which it
      chooses adversarially (always the mode, always the rarest state, alternating) some of the time.
No statistical test, hence no significance threshold and no false-alarm rate.
"""
from __future__ import annotations

import random

ID = "C29"
LEVEL = "exploration"
TIERS = {
    "quick": {"runs": 4000, "wall": 80, "chunk": 50, "shrink_s": 40, "run_cap_s": 120},
    "thorough": {"runs": 800_000, "wall": 840, "chunk": 100, "shrink_s": 120, "run_cap_s": 120},
}
RULE = (
    "one run = one random circuit on 1-5 wires with 1-4 measurements (sample/counts/expval/var/probs over "
    "wire subsets, Pauli words, Hermitian, projector and linear-combination observables, all_outcomes) under "
    "a random shot specification (1-200 shots, shot vectors with up to 3 bins), executed on default.qubit "
    "(numpy Generator or JAX PRNGKey) or default.mixed with every categorical draw decided by the simulator "
    "under one of five policies. distinct = distinct digest of (policy, offered distributions, results); "
    "non-trivial = an adversarial (non-sampling) policy, a shot vector, or more than one draw."
)
SIM_TIME_NOTE = "no clock on this path"
REAL = ["measure_with_samples, sample_state, sample_probs, _sample_probs_numpy/_jax, diagonalizing-gate rotation",
        "per-bin processing of shot vectors; SampleMP/CountsMP/ExpectationMP/VarianceMP/ProbabilityMP.process_samples",
        "default.qubit and default.mixed execution through qp.execute (device preprocessing included)"]
STUBBED = ["numpy Generator.choice -> simkit.ScriptHub decides the returned indices",
           "jax.random.choice -> the same hub (JAX PRNGKey devices)"]
NOT_INJECTED = ["clock/network/disk faults: none exist on this path",
                "classical-shadow measurements (recipes come from an internally constructed RandomState)"]
ASSUMPTIONS = [
    "the per-shot value of an observable for a basis index is taken from PennyLane's own single-sample post-processing (qp.sample(op).process_samples on one row); it is pinned jointly with the offered distribution by oracle (i) against the independent reference simulator",
    "variance of samples is the population variance (numpy default)",
    "results are compared with tolerance 1e-8 (numpy generators) or 5e-6 (JAX PRNGKey devices compute in float32)",
]

_ENV = {}
POLICIES = ["sample", "sample", "mode", "rarest", "alternate", "extremes"]


def preimport():
    setup(warm_jax=False)


def setup(warm_jax=True):
    import warnings

    if not _ENV.get("ready"):
        import numpy as np
        import pennylane as qp

        from checks import qgen
        from ref import sim
        from simkit import simrng

        warnings.filterwarnings("ignore")
        _ENV.update(qp=qp, np=np, qgen=qgen, sim=sim, simrng=simrng, hub=None, ready=True)
        from simkit.core import Streams, derive_seed

        try:
            n = 0
            for i in range(200):
                case = gen_case(Streams(derive_seed("warm", i)), "quick")
                if case["rng"] == "numpy":
                    run_case(case)
                    n += 1
                if n >= 40:
                    break
        except Exception:  # noqa: BLE001 - warm-up only
            pass
    if warm_jax and not _ENV.get("jax_ready"):
        _ENV["simrng"].patch_jax_choice(lambda: _ENV.get("hub"))
        _ENV["jax_ready"] = True


# ------------------------------------------------------------------------------------------------
# generation
# ------------------------------------------------------------------------------------------------


def gen_case(streams, tier):
    import json

    from checks import qgen

    w, s = streams["workload"], streams["rngseam"]
    n = w.choice([1, 2, 2, 3, 3, 4, 5] * 4 + [9])  # rarely more than eight wires (bit strings longer than a byte)
    wires = list(range(n))
    # a first layer touching every wire in order: the circuit's own wire order is then 0..n-1, so no
    # assumption about how a device orders the wires of a circuit that skips some is baked in
    ops = [["RY", [i], [qgen.rand_angle(w)]] for i in wires] + qgen.gen_ops(w, n, w.randint(0, 7))
    mps = []
    for _ in range(w.randint(1, 4)):
        r = w.random()
        ws = w.sample(wires, w.randint(1, n))
        if w.random() < 0.15:
            # +-1-valued observables whose eigenvalue order is not the bit-parity order
            mps.append([w.choice(["sample", "counts", "expval", "var"]), qgen.gen_pm1_obs(w, wires)])
        elif r < 0.18:
            mps.append(["sample", ws])
        elif r < 0.28:
            mps.append(["sample", qgen.gen_pauli_word(w, wires)])
        elif r < 0.42:
            mps.append(["counts", ws, w.random() < 0.4])
        elif r < 0.50:
            mps.append(["counts", qgen.gen_pauli_word(w, wires), w.random() < 0.4])
        elif r < 0.72:
            mps.append(["expval", qgen.gen_obs(w, wires)])
        elif r < 0.82:
            mps.append(["var", qgen.gen_pauli_word(w, wires)])
        else:
            mps.append(["probs", ws])
    shots = w.choice([1, 2, 3, 7, 10, 25, 50, 100, 200, [1, 1], [3, 5], [10, 10], [2, 7, 4], [20, 1, 20], [5, 5, 5],
                      [[5, 2], 12], [[3, 3]], [4, [2, 2], 4], [[5, 2], 12, [5, 1], 12], [7, 7, 30, 7]])
    dev = w.choice(["qubit", "qubit", "qubit", "mixed"])
    rng = "numpy" if dev == "mixed" else w.choice(["numpy"] * 7 + ["jax"])
    if rng == "jax":
        # XLA compiles once per (shots, wires) shape and per worker process: keep the shape set small
        shots = w.choice([5, 5, [2, 3]])
    if n > 5:
        # keep the wide case cheap: basis-state style measurements only, one device
        mps = [["counts", list(wires), False]] + ([["sample", w.sample(wires, 3)]] if w.random() < 0.5 else [])
        dev, rng, shots = "qubit", "numpy", w.choice([5, 20, [4, 9]])
    # the request is also answered from ONE raw register of computational-basis shots through the
    # measurements' own process_counts / process_samples (what a counts-only or samples-only device relies on)
    via = "post" if dev == "qubit" and rng == "numpy" and w.random() < 0.25 else None
    return {"n": n, "ops": ops, "mps": mps, "shots": shots, "device": dev, "rng": rng, "via": via,
            "policy": s.choice(POLICIES), "decide_seed": s.getrandbits(32), "dev_seed": w.randint(0, 2**31 - 1)}


# ------------------------------------------------------------------------------------------------
# helpers
# ------------------------------------------------------------------------------------------------


def _bits(i, n):
    return [(i >> (n - 1 - k)) & 1 for k in range(n)]


def _key(v):
    if isinstance(v, tuple):
        return v
    return round(float(v), 8) + 0.0


def _dist_close(a, b, tol=1e-7):
    keys = set(a) | set(b)
    return all(abs(a.get(k, 0.0) - b.get(k, 0.0)) <= tol for k in keys)


def _atoms(mp):
    """Decompose a measurement into the separately sampled pieces ('atoms')."""
    kind, arg = mp[0], mp[1]
    if isinstance(arg, list) and arg and isinstance(arg[0], str):
        if arg[0] == "L":
            return [("obs", ["L", [t]]) for t in arg[1]]
        return [("obs", arg)]
    return [("wires", list(arg))]


def _value_map(atom, n):
    """Per-shot value for every basis index of the n device wires."""
    qp, np, qgen = _ENV["qp"], _ENV["np"], _ENV["qgen"]
    kind, arg = atom
    if kind == "wires":
        return [tuple(_bits(i, n)[w] for w in arg) for i in range(2**n)]
    # PennyLane's own single-sample post-processing (pinned jointly with p by oracle (i))
    mp = qp.sample(op=qgen.build_obs(arg))
    rows = np.array([_bits(i, n) for i in range(2**n)], dtype=np.int64)
    wo = qp.wires.Wires(range(n))
    vals = [mp.process_samples(rows[i:i + 1], wo) for i in range(2**n)]
    return [_key(np.asarray(v).reshape(-1)[0]) for v in vals]


def _reference_dist(atom, state, n):
    sim, np = _ENV["sim"], _ENV["np"]
    kind, arg = atom
    if kind == "wires":
        p = sim.probs(state, arg, n)
        k = len(arg)
        return {tuple(_bits(i, k)): float(p[i]) for i in range(2**k) if p[i] > 1e-13}
    d = sim.eig_distribution(state, arg, n, decimals=8)
    return {k: v for k, v in d.items() if v > 1e-13}


def _observe_real_draws(case, state):
    """Fallback without decisions (JAX generator): shots=[150, 250, 600] of sample(all wires) with the device's
    real generator.  Returns None or (what, detail).  Deterministic for a given PRNGKey.  Threshold 1e-9 per
    test; an outcome of exact probability zero is an immediate violation."""
    import jax
    from scipy.stats import chi2

    qp, np, qgen, sim = _ENV["qp"], _ENV["np"], _ENV["qgen"], _ENV["sim"]
    n = case["n"]
    bins = [150, 250, 600]
    _ENV["hub"] = None
    dev = qp.device("default.qubit", wires=n, seed=jax.random.PRNGKey(case["dev_seed"] % (2**31)))
    tape = qgen.build_tape({"ops": case["ops"], "mps": [["sample", list(range(n))]], "shots": bins})
    res = qp.execute([tape], dev, diff_method=None, cache=False)[0]
    exact = sim.probs(state, list(range(n)), n)
    if len(res) != len(bins):
        return "bins", {"expected_bins": len(bins), "observed": len(res)}

    def hist(rows):
        h = np.zeros(2**n)
        for r in rows:
            i = 0
            for b in np.asarray(r).reshape(-1):
                i = (i << 1) | int(b)
            h[i] += 1
        return h

    def gof(obs, expected_p, nn):
        e = expected_p * nn
        if ((e < 1e-9) & (obs > 0)).any():
            return 0.0
        big = e >= 5
        o2, e2 = list(obs[big]), list(e[big])
        if (~big).any():
            o2.append(obs[~big].sum())
            e2.append(e[~big].sum())
        o2, e2 = np.array(o2), np.array(e2)
        keep = e2 > 1e-9
        if keep.sum() < 2:
            return 1.0
        stat = float((((o2 - e2) ** 2)[keep] / e2[keep]).sum())
        return float(chi2.sf(stat, int(keep.sum()) - 1))

    for bi, (k, rows) in enumerate(zip(bins, res)):
        rows = np.asarray(rows).reshape(k, -1) if np.asarray(rows).size == k * n else None
        if rows is None:
            return "bin_size", {"bin": bi, "shots": k, "observed_shape": list(np.asarray(res[bi]).shape)}
        pv = gof(hist(rows), exact, k)
        if pv < 1e-9:
            return "bin_distribution", {"bin": bi, "shots": k, "p_value": pv,
                                        "observed": hist(rows).tolist(), "exact": np.round(exact, 5).tolist()}
        # the shots of a bin are exchangeable: its first half must look like its second half
        h1, h2 = hist(rows[:k // 2]), hist(rows[k // 2:])
        pooled = (h1 + h2) / k
        pv2 = min(gof(h1, pooled, k // 2), gof(h2, pooled, k - k // 2))
        if pv2 < 1e-9:
            return "shot_position", {"bin": bi, "p_value": pv2, "first_half": h1.tolist(), "second_half": h2.tolist()}
    return None


def _normalise_results(res, n_mps, bins):
    """-> list over bins of list over measurements."""
    if len(bins) > 1:
        out = []
        for b in res:
            out.append(list(b) if n_mps > 1 else [b])
        return out
    return [list(res) if n_mps > 1 else [res]]


def _expected(mp, per_atom_vals, n):
    """Documented aggregation of the per-shot values of one bin."""
    np = _ENV["np"]
    kind = mp[0]
    vals = per_atom_vals[0]
    if kind == "sample":
        return ("seq", [x for v in vals for x in (v if isinstance(v, tuple) else (v,))])
    if kind == "counts":
        tally = {}
        for v in vals:
            k = "".join(map(str, v)) if isinstance(v, tuple) else _key(v)
            tally[k] = tally.get(k, 0) + 1
        return ("counts", tally)
    if kind == "expval":
        return ("num", float(sum(float(np.mean(v)) for v in per_atom_vals)))
    if kind == "var":
        return ("num", float(np.var(np.array(vals, dtype=float))))
    if kind == "probs":
        k = len(mp[1])
        f = np.zeros(2**k)
        for v in vals:
            idx = 0
            for b in v:
                idx = (idx << 1) | b
            f[idx] += 1
        return ("vec", (f / max(len(vals), 1)).tolist())
    raise ValueError(kind)


def _matches(exp, got, mp, all_keys, tol=1e-8):
    np = _ENV["np"]
    tag, e = exp
    if tag == "seq":
        g = np.asarray(got).reshape(-1).tolist()
        return len(g) == len(e) and all(abs(float(a) - float(b)) < tol for a, b in zip(g, e))
    if tag == "counts":
        if not isinstance(got, dict):
            return False
        g = {}
        for k, v in got.items():
            kk = k if isinstance(k, str) else _key(np.asarray(k).item() if hasattr(k, "item") else k)
            g[kk] = g.get(kk, 0) + int(v)
        want = dict(e)
        if len(mp) > 2 and mp[2]:  # all_outcomes: zero-count keys must be present
            for k in all_keys:
                want.setdefault(k, 0)
        else:
            g = {k: v for k, v in g.items() if v}
        return g == want
    if tag == "num":
        try:
            return abs(float(np.asarray(got).reshape(-1)[0]) - e) < tol and np.asarray(got).size == 1
        except Exception:  # noqa: BLE001
            return False
    g = np.asarray(got, dtype=float).reshape(-1)
    return g.shape == (len(e),) and bool(np.allclose(g, e, atol=tol, rtol=0))


# ------------------------------------------------------------------------------------------------
# execution
# ------------------------------------------------------------------------------------------------


def run_case(case):
    import hashlib
    import itertools
    import json

    qp, np, qgen, sim, simrng = _ENV["qp"], _ENV["np"], _ENV["qgen"], _ENV["sim"], _ENV["simrng"]
    if case["rng"] == "jax":
        setup(warm_jax=True)
    n = case["n"]
    shots = case["shots"]
    # the documented expansion of a shot specification: ints and (shots, copies) pairs, in order
    bins = [b for x in (shots if isinstance(shots, list) else [shots])
            for b in ([x[0]] * x[1] if isinstance(x, list) else [x])]
    total = sum(bins)
    violations = []
    sig = {"device": case["device"], "rng": case["rng"], "shot_vector": len(bins) > 1}

    def viol(klass, extra_sig, detail):
        if len(violations) < 3:
            violations.append({"klass": klass, "sig": dict(sig, **extra_sig), "detail": detail})

    tol = 1e-8 if case["rng"] == "numpy" else 5e-6  # the JAX path computes in float32
    hub = simrng.ScriptHub(random.Random(case["decide_seed"]), case["policy"])
    _ENV["hub"] = hub
    try:
        if case["rng"] == "jax":
            import jax

            seed = jax.random.PRNGKey(case["dev_seed"] % (2**31))
        else:
            seed = simrng.SimGenerator(np.random.PCG64(case["dev_seed"]), hub)
        dev = qp.device("default.qubit" if case["device"] == "qubit" else "default.mixed", wires=n, seed=seed)
        tape = qgen.build_tape({"ops": case["ops"], "mps": case["mps"], "shots": shots})
        try:
            res = qp.execute([tape], dev, diff_method=None, cache=False)[0]
        except Exception as e:  # noqa: BLE001
            viol("unexpected_exception", {}, {"error": repr(e)[:300]})
            res = None
    finally:
        _ENV["hub"] = None
    offers = hub.offers
    state = sim.run(case["ops"], n)
    counters = {"draws": len(offers), "measurements": len(case["mps"]), "policy:" + case["policy"]: 1,
                "device:" + case["device"]: 1, "rng:" + case["rng"]: 1, "shot_vectors": int(len(bins) > 1),
                "associations_ambiguous": 0, "offers_subset_layout": 0}
    if n > 8:
        counters["more_than_eight_wires"] = 1
    if res is not None:
        if not offers:
            # the implementation does not sample through choice(p=...) here: the simulator decides nothing,
            # so this run falls back to observation -- real draws of the device's own generator, many shots,
            # goodness of fit per shot bin and between the two halves of each bin (strict threshold)
            counters["no_offers"] = 1
        if case["rng"] == "jax" and (not offers or case["decide_seed"] % 8 == 0):
            bad = _observe_real_draws(case, state)
            counters["runs_observed_with_real_draws"] = 1
            if bad:
                viol("real_draws_inconsistent_with_born_rule", {"what": bad[0], "seam_bypassed": not offers}, bad[1])
        per_bin = None
        try:
            per_bin = _normalise_results(res, len(case["mps"]), bins)
            if len(per_bin) != len(bins) or any(len(b) != len(case["mps"]) for b in per_bin):
                raise ValueError("shape")
        except Exception:  # noqa: BLE001
            viol("result_structure_wrong", {}, {"bins": len(bins), "mps": len(case["mps"]),
                                                "observed": repr(res)[:200]})
            per_bin = None
        explained = [False] * len(offers)
        explain_incomplete = False
        for mi, mp in enumerate(case["mps"]):
            if not offers or per_bin is None:
                break
            atoms = _atoms(mp)
            cand_per_atom = []
            ok_atoms = True
            too_many = False
            for atom in atoms:
                R = _reference_dist(atom, state, n)
                vmap = _value_map(atom, n)
                cands = []
                for di, off in enumerate(offers):
                    p = off["p"]
                    if len(p) == 2**n:
                        D = {}
                        for i, q in enumerate(p):
                            if q > 1e-13:
                                D[vmap[i]] = D.get(vmap[i], 0.0) + float(q)
                        if _dist_close(D, R) and abs(float(p.sum()) - 1) < 1e-7 and (p > -1e-12).all():
                            cands.append(di)
                            explained[di] = True
                    elif atom[0] == "wires" and len(p) == 2 ** len(atom[1]):
                        counters["offers_subset_layout"] += 1
                        k = len(atom[1])
                        D = {tuple(_bits(i, k)): float(q) for i, q in enumerate(p) if q > 1e-13}
                        if _dist_close(D, R):
                            cands.append(di)
                            explained[di] = True
                # feeding plans: one offer of the total size, or one offer per bin in order
                plans = [[di] for di in cands if offers[di]["size"] == total]
                if len(bins) > 1 or not plans:
                    per = [[di for di in cands if offers[di]["size"] == b] for b in bins]
                    if all(per):
                        n_combo = 1
                        for x in per:
                            n_combo *= len(x)
                        if n_combo > 2000:
                            too_many = True
                        else:
                            # offers are consumed in program order: take increasing index sequences
                            for combo in itertools.product(*per):
                                if list(combo) == sorted(set(combo)):
                                    plans.append(list(combo))
                if not plans and too_many:
                    # candidates exist for every bin, but there are too many ways to thread them to enumerate:
                    # nothing is concluded for this measurement (sound, counted)
                    ok_atoms = False
                    counters["associations_not_enumerable"] = counters.get("associations_not_enumerable", 0) + 1
                    explain_incomplete = True  # the remaining atoms of this measurement were not matched
                    break
                if not plans:
                    ok_atoms = False
                    viol("born_rule_offer_missing", {"mp": mp[0], "atom": atom[0]},
                         {"measurement": mp, "atom": atom,
                          "reference_distribution": {str(k): round(v, 6) for k, v in sorted(R.items(), key=str)},
                          "offers": [{"size": o["size"], "len_p": len(o["p"]),
                                      "p": [round(float(x), 6) for x in o["p"][:16]]} for o in offers[:6]],
                          "total_shots": total})
                    break
                cand_per_atom.append((vmap, plans, R))
            if not ok_atoms:
                continue
            # ---- (ii) results are the documented aggregation of the returned indices -----------------
            found = False
            n_assoc = 0
            all_keys = None
            if mp[0] == "counts":
                if atoms[0][0] == "wires":
                    k = len(atoms[0][1])
                    all_keys = ["".join(map(str, _bits(i, k))) for i in range(2**k)]
                else:
                    all_keys = sorted(set(cand_per_atom[0][0]))
            n_assoc_total = 1
            for c_ in cand_per_atom:
                n_assoc_total *= len(c_[1])
            if too_many or n_assoc_total > 4000:
                # which offer fed which (term of the) measurement is not observable and there are too many
                # candidate associations to enumerate: nothing is concluded for this measurement (sound)
                counters["associations_not_enumerable"] = counters.get("associations_not_enumerable", 0) + 1
                continue
            for assoc in itertools.product(*[c[1] for c in cand_per_atom]):
                n_assoc += 1
                ok = True
                for bi, b in enumerate(bins):
                    per_atom_vals = []
                    for (vmap, _, _), plan in zip(cand_per_atom, assoc):
                        if len(plan) == 1 and offers[plan[0]]["size"] == total:
                            lo = sum(bins[:bi])
                            idx = offers[plan[0]]["idx"][lo:lo + b]
                        else:
                            idx = offers[plan[bi]]["idx"]
                        vals = [vmap[int(i)] if len(offers[plan[0]]["p"]) == 2**n else tuple(_bits(int(i), len(atoms[0][1])))
                                for i in idx]
                        per_atom_vals.append(vals)
                    exp = _expected(mp, per_atom_vals, n)
                    if not _matches(exp, per_bin[bi][mi], mp, all_keys, tol):
                        ok = False
                        last = (bi, exp)
                        break
                if ok:
                    found = True
                    break
            if n_assoc > 1:
                counters["associations_ambiguous"] += 1
            if not found:
                bi, exp = last
                viol("result_not_function_of_draws", {"mp": mp[0]},
                     {"measurement": mp, "bin": bi, "bin_sizes": bins, "policy": case["policy"],
                      "expected": json.dumps(exp, default=str)[:300],
                      "observed": json.dumps(qgen.to_jsonable(per_bin[bi][mi]), default=str)[:300]})
        if offers and per_bin is not None and not violations and not explain_incomplete:
            for di, ex in enumerate(explained):
                if not ex:
                    viol("offer_matches_no_measurement", {},
                         {"offer": di, "size": offers[di]["size"],
                          "p": [round(float(x), 6) for x in offers[di]["p"][:32]],
                          "measurements": case["mps"]})
                    break
    # ---- post-processing of one raw register: process_counts / process_samples ------------------------
    if case.get("via") == "post" and not violations and res is not None:
        def z_basis(mp_):
            a = mp_[1]
            if not (isinstance(a, list) and a and isinstance(a[0], str)):
                return mp_[0] != "sample" or True
            if a[0] == "P":
                return set(a[1]) <= {"Z", "I"}
            if a[0] == "SP":
                return set(a[2]) <= {"Z", "I"}
            # sums are measured term by term by the devices; their eigvals() are sorted, i.e. their own
            # process_samples presupposes the sum's diagonalizing gates -- not a computational-basis request
            return False

        todo = [mp_ for mp_ in case["mps"] if z_basis(mp_)]
        if todo:
            hub2 = simrng.ScriptHub(random.Random(case["decide_seed"] + 1), case["policy"])
            _ENV["hub"] = hub2
            try:
                dev2 = qp.device("default.qubit", wires=n, seed=simrng.SimGenerator(np.random.PCG64(case["dev_seed"]), hub2))
                raw_tape = qgen.build_tape({"ops": case["ops"], "mps": [["counts", list(range(n)), False], ["sample", list(range(n))]],
                                            "shots": total})
                raw_counts, raw_samples = qp.execute([raw_tape], dev2, diff_method=None, cache=False)[0]
            finally:
                _ENV["hub"] = None
            if len(hub2.offers) == 1 and hub2.offers[0]["size"] == total:
                idx = [int(i) for i in hub2.offers[0]["idx"]]
                wo = qp.wires.Wires(range(n))
                counters["post_processed_registers"] = 1
                for mp_ in todo:
                    atoms_ = _atoms(mp_)
                    per_atom = [[_value_map(a_, n)[i] for i in idx] for a_ in atoms_]
                    exp = _expected(mp_, per_atom, n)
                    keys_ = None
                    if mp_[0] == "counts":
                        keys_ = (["".join(map(str, _bits(i, len(atoms_[0][1])))) for i in range(2 ** len(atoms_[0][1]))]
                                 if atoms_[0][0] == "wires" else sorted(set(_value_map(atoms_[0], n))))
                    m_obj = qgen.build_mp(mp_)
                    for how, call in (("process_counts", lambda: m_obj.process_counts(dict(raw_counts), wo)),
                                      ("process_samples", lambda: m_obj.process_samples(np.asarray(raw_samples).reshape(total, n), wo))):
                        if how == "process_counts" and mp_[0] == "sample":
                            continue  # per-shot order cannot be recovered from counts
                        try:
                            got_ = call()
                        except NotImplementedError:
                            continue
                        except Exception as e:  # noqa: BLE001
                            viol("unexpected_exception", {"where": how, "mp": mp_[0]}, {"measurement": mp_, "error": repr(e)[:200]})
                            break
                        if not _matches(exp, got_, mp_, keys_, tol):
                            viol("post_processing_not_function_of_the_register", {"how": how, "mp": mp_[0]},
                                 {"measurement": mp_, "expected": json.dumps(exp, default=str)[:300],
                                  "observed": json.dumps(qgen.to_jsonable(got_), default=str)[:300],
                                  "register": ["".join(map(str, _bits(i, n))) for i in idx][:12]})
                            break
                    if violations:
                        break
    h = hashlib.sha256(json.dumps([case["policy"], [[o["size"], np.round(o["p"], 6).tolist()] for o in offers],
                                   qgen.to_jsonable(res) if res is not None else None],
                                  sort_keys=True, default=str).encode())
    return {
        "violations": violations,
        "digest": h.hexdigest()[:24],
        "nontrivial": case["policy"] != "sample" or len(bins) > 1 or len(offers) > 1,
        "counters": counters,
        "sim_time": 0.0,
        "case": case,
        "summary": {"offers": [[o["size"], len(o["p"]), o["via"]] for o in offers[:8]], "policy": case["policy"]},
    }


def shrink_candidates(case):
    from simkit.runner import shrink_list

    for mps in shrink_list(case["mps"], 1):
        yield dict(case, mps=mps)
    n = case["n"]  # the first layer (one gate per wire, in order) fixes the wire layout and stays
    for ops in shrink_list(case["ops"][n:], 0):
        yield dict(case, ops=case["ops"][:n] + ops)
    if isinstance(case["shots"], list):
        yield dict(case, shots=case["shots"][0])
        yield dict(case, shots=case["shots"][:2])
    elif case["shots"] > 3:
        yield dict(case, shots=3)
    if case["device"] != "qubit":
        yield dict(case, device="qubit")
    if case["rng"] != "numpy":
        yield dict(case, rng="numpy")
    if case["policy"] != "sample":
        yield dict(case, policy="sample")
