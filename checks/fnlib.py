"""Picklable, module-level pure functions used as task bodies (C65, conformance runs)."""
import os

import numpy as np


class WorkerDeathRequested(BaseException):
    pass


def f1_sq(x):
    return x * x + 1


def f1_tag(x):
    return ("t", x)


def f1_raise(x):
    if x % 7 == 0:
        raise KeyError(f"k{x}")
    return -x


def f2_lin(a, b):
    return 1000 * a + b


def f2_kw(a, b=7):
    return (a, b)


def f2_arr(a, b):
    return np.array([a, b, a * b], dtype=np.int64)


def f2_raise(a, b):
    if a % 5 == 3:
        raise ValueError(f"bad {a}")
    return a + b


def f2_kwonly(a, b, *, scale=1):
    return (a + b) * scale


def f3(a, b, c):
    return a * 10000 + b * 100 + c


def f3_kw(a, b, c=0, tag="x"):
    return (tag, a, b, c)


def f2_die(a, b):
    """Kills its worker when a == 13 (simulated pools intercept the exception)."""
    if a == 13:
        if os.environ.get("VERIF_REAL_POOL") == "1":
            os._exit(1)
        from simkit.simpool import SimWorkerDeath

        raise SimWorkerDeath()
    return a - b


def _unpicklable():
    return lambda a, b: a + b


FNS = {
    f.__name__: f
    for f in (f1_sq, f1_tag, f1_raise, f2_lin, f2_kw, f2_arr, f2_raise, f2_kwonly, f3, f3_kw, f2_die)
}
FNS["lambda2"] = _unpicklable()

# call shapes: (number of positional arguments, keyword arguments)
SHAPES = {
    "f1_sq": [(1, {})], "f1_tag": [(1, {})], "f1_raise": [(1, {})],
    "f2_lin": [(2, {})], "f2_arr": [(2, {})], "f2_raise": [(2, {})], "f2_die": [(2, {})],
    "lambda2": [(2, {})],
    "f2_kw": [(2, {}), (1, {}), (1, {"b": 9})],
    "f2_kwonly": [(2, {}), (2, {"scale": 3})],
    "f3": [(3, {})],
    "f3_kw": [(3, {}), (2, {}), (2, {"tag": "y"}), (3, {"tag": "y"}), (2, {"c": 5, "tag": "z"})],
}
