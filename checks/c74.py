"""C74 -- MBQC conversion preserves the circuit for every measurement outcome; Pauli tracking is exact.

Real code: convert_to_mbqc_gateset (graph decomposition), convert_to_mbqc_formalism(diagonalize_mcms=True),
QubitMgr, GraphStatePrep, the parametric / conditional mid-circuit measurements and their diagonalisation,
the online byproduct corrections (Conditional + measurement-value arithmetic), default.qubit's one-shot
execution of the converted tape (apply_mid_measure, apply_conditional, sampling).
Stub: the random generator.  Every mid-circuit measurement outcome of the measurement pattern is forced
by the simulator; at the terminal draw the offered distribution, marginalised onto the logical output
wires, must equal the original circuit's Born distribution for EVERY forced history.
The Clifford commutation table commute_clifford_op (C P C^dagger = P') is a pure function of its input:
it is enumerated exhaustively over all Pauli frames as a side check and reported as such.
"""
from __future__ import annotations

ID = "C74"
LEVEL = "exploration"
TIERS = {
    "quick": {"runs": 2400, "wall": 85, "chunk": 10, "shrink_s": 60, "run_cap_s": 120},
    "thorough": {"runs": 60_000, "wall": 840, "chunk": 10, "shrink_s": 120, "run_cap_s": 120},
}
RULE = (
    "one run = one random circuit of 1-4 gates from {H, S, RZ, Rot, CNOT, X, Y, Z} on 1-2 logical wires (14-15 "
    "physical wires after conversion, 4-40 forced mid-circuit measurements), converted with the real "
    "transforms and executed 2-4 shots on default.qubit with every measurement outcome forced (all zeros, all "
    "ones, alternating, always the rarer outcome, or sampled); one run in fifty instead enumerates the whole "
    "Clifford commutation table. distinct = distinct digest of (circuit, forced histories); non-trivial = a "
    "forced history containing at least one outcome 1 (a byproduct correction had to fire)."
)
SIM_TIME_NOTE = "no clock on this path"
REAL = ["pennylane.ftqc.convert_to_mbqc_gateset / convert_to_mbqc_formalism / QubitMgr / GraphStatePrep",
        "parametric and conditional mid-circuit measurements + diagonalize_mcms, online byproduct corrections",
        "default.qubit one-shot execution of the converted tape", "pennylane.ftqc.pauli_tracker.commute_clifford_op (exhaustive side check)"]
STUBBED = ["numpy Generator.binomial / .choice -> simkit hub forces every measurement outcome and the terminal draw"]
NOT_INJECTED = ["clock/network/disk faults: none exist on this path",
                "offline byproduct correction is driven on forced histories against an independent frame propagation, not by executing an uncorrected pattern on a device",
                "3 logical wires (16 physical): affordable only in the thorough tier budget, not generated"]
ASSUMPTIONS = [
    "the position of a wire in the offered basis-state distribution is its position in QuantumScript.map_to_standard_wires() (public, documented)",
    "histories are seeded samples plus adversarial extremes, never the full 2^k space beyond a single gate",
]

_ENV = {}
POLICIES = ["sample", "sample", "zeros", "ones", "alternate", "rare"]


def preimport():
    setup()


def setup():
    if _ENV.get("ready"):
        return
    import warnings

    import numpy as np
    import pennylane as qp
    from pennylane.ftqc import convert_to_mbqc_formalism, convert_to_mbqc_gateset
    from pennylane.ftqc.pauli_tracker import commute_clifford_op

    from checks import c21
    from ref import sim
    from simkit import simrng

    warnings.filterwarnings("ignore")
    qp.decomposition.enable_graph()
    c21.setup()
    _ENV.update(qp=qp, np=np, sim=sim, simrng=simrng, c21=c21, to_gateset=convert_to_mbqc_gateset,
                to_formalism=convert_to_mbqc_formalism, commute=commute_clifford_op, ready=True)
    from simkit.core import Streams, derive_seed

    try:
        for i in range(4):
            run_case(gen_case(Streams(derive_seed("warm", i)), "quick"))
    except Exception:  # noqa: BLE001 - warm-up only
        pass


def gen_case(streams, tier):
    from checks import qgen

    w, s = streams["workload"], streams["rngseam"]
    if w.random() < 0.02:
        return {"kind": "clifford_table"}
    if w.random() < 0.06:
        # the offline tracker: a Clifford(+Pauli, +one leading RZ per wire) tape in the standard circuit
        # formalism, a forced history of the pattern's mid-circuit outcomes (4 per single-qubit gate, 13 per
        # CNOT) and raw terminal samples; the wires are first used in any order
        n = w.choice([1, 2, 2, 3, 3])
        ops, used = [], set()
        for _ in range(w.randint(1, 6)):
            r = w.random()
            q = w.randrange(n)
            if r < 0.12 and q not in used:
                ops.append(["RZ", [q], [qgen.rand_angle(w)]])
            elif r < 0.35:
                ops.append(["Hadamard", [q], []])
            elif r < 0.55:
                ops.append(["S", [q], []])
            elif r < 0.70:
                ops.append([w.choice(["PauliX", "PauliY", "PauliZ"]), [q], []])
            elif n > 1:
                ops.append(["CNOT", w.sample(range(n), 2), []])
            else:
                ops.append(["Hadamard", [q], []])
            used.update(ops[-1][1])
        n_mid = sum(0 if o[0].startswith("Pauli") else (13 if o[0] == "CNOT" else 4) for o in ops)
        measured = w.sample(sorted(used), w.randint(1, len(used)))
        return {"kind": "offline_tracker", "n": n, "ops": ops, "measured": measured,
                "mid": [s.getrandbits(1) for _ in range(n_mid)], "raw": [s.getrandbits(1) for _ in measured]}
    n = w.choice([1, 1, 2, 2, 2])
    ops = []

    def angle():
        # measurement angles that are exact multiples of pi / 2 are where a measurement axis coincides
        # with a Pauli axis (and where sign conventions are easiest to get wrong)
        import math

        if w.random() < 0.3:
            return w.choice([math.pi, -math.pi, 3 * math.pi, 0.0, math.pi / 2, -math.pi / 2, 2 * math.pi])
        return qgen.rand_angle(w)

    for _ in range(w.randint(1, 4)):
        r = w.random()
        q = w.randrange(n)
        if r < 0.18:
            ops.append(["Hadamard", [q], []])
        elif r < 0.30:
            ops.append(["S", [q], []])
        elif r < 0.48:
            ops.append(["RZ", [q], [angle()]])
        elif r < 0.66:
            ops.append(["Rot", [q], [angle() for _ in range(3)]])
        elif r < 0.78:
            ops.append([w.choice(["PauliX", "PauliY", "PauliZ"]), [q], []])
        elif n > 1:
            ops.append(["CNOT", w.sample(range(n), 2), []])
        else:
            ops.append(["RZ", [q], [angle()]])
    return {"kind": "circuit", "n": n, "ops": ops, "shots": w.choice([2, 2, 3, 4]),
            "route": w.choice(["inline", "inline", "two_step"]),
            "policy": s.choice(POLICIES), "decide_seed": s.getrandbits(32)}


# ------------------------------------------------------------------------------------------------


def _pauli(x, z):
    sim, np = _ENV["sim"], _ENV["np"]
    m = np.eye(2, dtype=complex)
    if x:
        m = m @ sim.X
    if z:
        m = m @ sim.Z
    return m


def _clifford_table():
    """Exhaustive: for H, S, CNOT and every Pauli frame, C P = phase * P' C."""
    qp, np, sim, commute = _ENV["qp"], _ENV["np"], _ENV["sim"], _ENV["commute"]
    bad = []
    n_checked = 0
    for op, C in ((qp.H(0), sim.H), (qp.S(0), sim.gate_matrix("S")), (qp.CNOT([0, 1]), sim.gate_matrix("CNOT"))):
        k = 1 if C.shape[0] == 2 else 2
        for bits in range(4**k):
            xz = [((bits >> (2 * i + 1)) & 1, (bits >> (2 * i)) & 1) for i in range(k)]
            new = commute(op, xz)
            P = _pauli(*xz[0]) if k == 1 else np.kron(_pauli(*xz[0]), _pauli(*xz[1]))
            Pn = _pauli(*new[0]) if k == 1 else np.kron(_pauli(*new[0]), _pauli(*new[1]))
            lhs, rhs = C @ P, Pn @ C
            n_checked += 1
            idx = np.argmax(np.abs(rhs))
            phase = lhs.flat[idx] / rhs.flat[idx]
            if abs(abs(phase) - 1) > 1e-9 or not np.allclose(lhs, phase * rhs, atol=1e-9):
                bad.append({"op": op.name, "xz": [list(t) for t in xz], "new_xz": [list(t) for t in new]})
    return n_checked, bad


def run_case(case):
    import hashlib
    import json

    qp, np, sim, simrng, c21 = (_ENV[k] for k in ("qp", "np", "sim", "simrng", "c21"))
    violations = []
    counters = {}

    def viol(klass, sig, detail):
        if len(violations) < 3:
            violations.append({"klass": klass, "sig": sig, "detail": detail})

    if case["kind"] == "clifford_table":
        n_checked, bad = _clifford_table()
        counters["clifford_frames_enumerated"] = n_checked
        for b in bad[:3]:
            viol("clifford_commutation_wrong", {"op": b["op"]}, b)
        return {"violations": violations, "digest": "clifford_table", "nontrivial": True, "counters": counters,
                "sim_time": 0.0, "case": case, "summary": {"frames": n_checked}}

    if case["kind"] == "offline_tracker":
        from checks import qgen as _qg
        from pennylane.ftqc.pauli_tracker import get_byproduct_corrections

        # byproduct operators of the measurement patterns, written out from Raussendorf, Browne, Briegel
        # (PRA 68, 022312, section II and Fig. 2; measurement numbering as there): X^x Z^z with
        def _single_xz_corrections(op_, m1, m2, m3, m4):
            if op_.name == "Hadamard":
                return (m1 ^ m3 ^ m4), (m2 ^ m3)
            if op_.name == "S":
                return (m2 ^ m4), (m1 ^ m2 ^ m3 ^ 1)
            return (m2 ^ m4), (m1 ^ m3)  # general rotation (RZ = RotXZX(0, z, 0))

        def _cnot_xz_corrections(ms_):
            m1, m2, m3, m4, m5, m6, m8, m9, m10, m11, m12, m13, m14 = ms_
            return [(m2 ^ m3 ^ m5 ^ m6, m1 ^ m3 ^ m4 ^ m5 ^ m8 ^ m9 ^ m11 ^ 1),
                    (m2 ^ m3 ^ m8 ^ m10 ^ m12 ^ m14, m9 ^ m11 ^ m13)]

        ops_ = _qg.build_ops(case["ops"])
        tape_ = qp.tape.QuantumScript(ops_, [qp.sample(wires=case["measured"])], shots=1)
        counters["offline_tracker_histories"] = 1
        counters["offline_tracker_first_use_not_ascending"] = int(list(tape_.wires) != sorted(tape_.wires))
        # reference frame propagation, written from C P C^dagger = P' for H, S and CNOT (symplectic form)
        fx, fz = {q: 0 for q in range(case["n"])}, {q: 0 for q in range(case["n"])}
        pos = 0
        for spec, op in zip(case["ops"], ops_):
            nm, ws = spec[0], spec[1]
            if nm.startswith("Pauli"):
                px, pz = {"PauliX": (1, 0), "PauliY": (1, 1), "PauliZ": (0, 1)}[nm]
                fx[ws[0]] ^= px
                fz[ws[0]] ^= pz
                continue
            width = 13 if nm == "CNOT" else 4
            ms = case["mid"][pos:pos + width]
            pos += width
            if nm == "CNOT":
                c, t = ws
                fx[t] ^= fx[c]
                fz[c] ^= fz[t]
                (bxc, bzc), (bxt, bzt) = _cnot_xz_corrections(ms)
                fx[c] ^= int(bxc); fz[c] ^= int(bzc); fx[t] ^= int(bxt); fz[t] ^= int(bzt)
            else:
                q = ws[0]
                if nm == "Hadamard":
                    fx[q], fz[q] = fz[q], fx[q]
                elif nm == "S":
                    fz[q] ^= fx[q]
                else:  # RZ, first gate on its wire: the frame there is still trivial
                    fx[q], fz[q] = 0, 0
                bx, bz = _single_xz_corrections(op, *ms)
                fx[q] ^= int(bx)
                fz[q] ^= int(bz)
        expected = [int(r) ^ fx[q] for r, q in zip(case["raw"], case["measured"])]
        try:
            got = [int(v) for v in np.asarray(get_byproduct_corrections(tape_, list(case["mid"]), list(case["raw"]))).reshape(-1)]
        except Exception as e:  # noqa: BLE001
            viol("unexpected_exception", {"where": "offline_tracker", "exc": type(e).__name__}, {"error": repr(e)[:300]})
            got = None
        if got is not None and got != expected:
            viol("offline_tracker_correction_wrong", {"first_use_ascending": list(tape_.wires) == sorted(tape_.wires)},
                 {"ops": case["ops"], "measured": case["measured"], "expected": expected, "observed": got,
                  "final_x_frame": [fx[q] for q in range(case["n"])]})
        hs = hashlib.sha256(json.dumps([case["ops"], case["mid"], case["raw"], case["measured"]]).encode())
        return {"violations": violations, "digest": hs.hexdigest()[:24], "nontrivial": any(case["mid"]),
                "counters": counters, "sim_time": 0.0, "case": case, "summary": {"ops": case["ops"]}}

    n = case["n"]
    from checks import qgen

    ref_state = sim.run(case["ops"], n)
    ref_p = sim.probs(ref_state, list(range(n)), n)
    tape = qp.tape.QuantumScript(qgen.build_ops(case["ops"]), [qp.sample(wires=list(range(n)))], shots=case["shots"])
    forced = []
    sig = {"gates": sorted({o[0] for o in case["ops"]})}
    try:
        (t1,), _ = _ENV["to_gateset"](tape)
        if case.get("route", "inline") == "two_step":
            # the formalism first (parametric measurements left as they are), then the stand-alone transform
            # that diagonalises them
            (t2,), _ = _ENV["to_formalism"](t1)
            (t2,), _ = qp.ftqc.diagonalize_mcms(t2)
            counters["route:two_step"] = 1
        else:
            (t2,), _ = _ENV["to_formalism"](t1, diagonalize_mcms=True)
    except Exception as e:  # noqa: BLE001
        viol("unexpected_exception", dict(sig, where="conversion", exc=type(e).__name__), {"error": repr(e)[:300]})
        t2 = None
    if t2 is not None:
        K = sum(1 for o in t2.operations if type(o).__name__ == "MidMeasure")
        counters["physical_wires"] = len(t2.wires)
        counters["mcms_per_shot"] = K
        std = t2.map_to_standard_wires()
        out_pos = [int(x) for x in std.measurements[0].wires]
        N = len(std.wires)
        hub = c21._make_hub({"policy": case["policy"], "decide_seed": case["decide_seed"]})
        dev = qp.device("default.qubit", seed=simrng.SimGenerator(np.random.PCG64(5), hub))
        try:
            res = qp.execute([t2], dev, diff_method=None, mcm_method="one-shot", cache=False)[0]
        except Exception as e:  # noqa: BLE001
            viol("unexpected_exception", dict(sig, where="execution", exc=type(e).__name__), {"error": repr(e)[:300]})
            res = None
        if res is not None:
            shots = case["shots"]
            groups, cur = [], None
            for off in hub.offers:
                if off["kind"] == "binomial":
                    if cur is None or len(cur["b"]) >= K:
                        cur = {"b": [], "c": []}
                        groups.append(cur)
                    cur["b"].append(off)
                elif off["kind"] == "choice" and cur is not None:
                    cur["c"].append(off)
            if K == 0:  # Pauli-only circuit: no measurement pattern, the device samples all shots at once
                groups = [{"b": [], "c": [o]} for o in hub.offers if o["kind"] == "choice"]
            if K and (len(groups) != shots or any(len(g["b"]) != K or len(g["c"]) < 1 for g in groups)):
                viol("one_shot_protocol_unexpected", sig,
                     {"shots": shots, "mcms": K, "groups": [[len(g["b"]), len(g["c"])] for g in groups][:6]})
            else:
                samples = np.asarray(res).reshape(shots, -1)
                for si, g in enumerate(groups):
                    h = [o["out"] for o in g["b"]]
                    forced.append(h)
                    for off in g["c"]:
                        p = off["p"]
                        if len(p) != 2**N:
                            continue
                        marg = p.reshape([2] * N)
                        others = tuple(i for i in range(N) if i not in out_pos)
                        marg = marg.sum(axis=others) if others else marg
                        kept = [i for i in range(N) if i in out_pos]
                        marg = np.transpose(marg, [kept.index(x) for x in out_pos]).reshape(-1)
                        if not np.allclose(marg, ref_p, atol=1e-7):
                            viol("logical_output_distribution_wrong_on_branch", sig,
                                 {"shot": si, "forced_history": h, "ones_in_history": int(sum(h)),
                                  "converted": np.round(marg, 6).tolist(), "original": np.round(ref_p, 6).tolist(),
                                  "circuit": case["ops"]})
                            break
                        # the returned sample is the forced index read on the output wires
                        idx = int(off["idx"][0])
                        bits = [(idx >> (N - 1 - x)) & 1 for x in out_pos]
                        if K and off["size"] == 1 and samples.shape[1] == len(bits) and list(map(int, samples[si])) != bits:
                            viol("returned_sample_not_the_drawn_state", sig,
                                 {"shot": si, "expected_bits": bits, "observed": list(map(int, samples[si]))})
                    if violations:
                        break
                counters["forced_measurements"] = sum(len(h) for h in forced)
                counters["byproduct_ones"] = sum(sum(h) for h in forced)
                counters["offers_not_half"] = sum(1 for g in groups for o in g["b"] if abs(o["p"] - 0.5) > 1e-7)
        counters["policy:" + case["policy"]] = 1
        counters["logical_wires:%d" % n] = 1
    hsh = hashlib.sha256(json.dumps([case["ops"], forced], default=str).encode())
    return {"violations": violations, "digest": hsh.hexdigest()[:24],
            "nontrivial": any(any(h) for h in forced), "counters": counters, "sim_time": 0.0, "case": case,
            "summary": {"ops": case["ops"], "forced_histories": ["".join(map(str, h)) for h in forced[:4]]}}


def shrink_candidates(case):
    if case["kind"] != "circuit":
        return
    from simkit.runner import shrink_list

    for ops in shrink_list(case["ops"], 1):
        if case["n"] == 2 or all(max(o[1]) < 1 for o in ops):
            yield dict(case, ops=ops)
    if case["n"] == 2 and all(max(o[1]) < 1 for o in case["ops"]):
        yield dict(case, n=1)
    if case["shots"] > 2:
        yield dict(case, shots=2)
    if case["policy"] != "ones":
        yield dict(case, policy="ones")
