"""C31 -- seeded and parallel execution is reproducible and order-preserving.

Real code: DefaultQubit.execute / compute_derivatives / execute_and_compute_derivatives /
compute_vjp / compute_jvp (+ execute_and_*), _simulate_wrapper, simulate, sampling,
convert_to_numpy_parameters, ExecutionConfig, qp.execute, the executor classes, stdlib Executor.map.
Stub: the worker pools (simkit.simpool) and numpy's default_rng factory, which returns a recording,
baton-yielding Generator with the identical stream (simkit.simrng).
"""
from __future__ import annotations

import random

ID = "C31"
LEVEL = "exploration"
TIERS = {
    "quick": {"runs": 2000, "wall": 80, "chunk": 20, "shrink_s": 40, "run_cap_s": 120},
    "thorough": {"runs": 400_000, "wall": 840, "chunk": 50, "shrink_s": 120, "run_cap_s": 120},
}
RULE = (
    "one run = one device seed, one history of 1-3 device calls (execute and the adjoint derivative "
    "entry points) on batches of 1-10 distinct circuits, one configuration (backend x max_workers "
    "in {None,1..8} x entry point), executed on fresh devices under 3 different schedule seeds plus "
    "one serial reference; thread-pool tasks run as baton threads descheduled at every RNG draw. "
    "distinct = distinct digest of results + completion orders + draw interleavings; non-trivial = at "
    "least one schedule completed tasks out of start order or interleaved the RNG draws of two tasks."
)
SIM_TIME_NOTE = "virtual time units; only orders task slices and completions"
REAL = [
    "DefaultQubit.execute/compute_derivatives/execute_and_compute_derivatives/compute_vjp/compute_jvp/execute_and_compute_vjp/execute_and_compute_jvp",
    "_simulate_wrapper, simulate, measure_with_samples, sample_state, adjoint_jacobian/jvp/vjp",
    "ExecutionConfig, qp.execute (workflow entry), executor classes, stdlib Executor.map",
]
STUBBED = [
    "worker pools -> simkit.SimThreadPool/SimProcPool/SimMPPool",
    "numpy.random.default_rng -> factory of SimGenerator(PCG64(seed)) (identical stream; records and yields at every draw)",
]
NOT_INJECTED = [
    "clock skew / timeouts / network: none exist on this path",
    "JAX PRNGKey device seeds: numpy seeds only in this implementation",
    "worker death: results are then undefined; covered for the executor layer by C65",
]
ASSUMPTIONS = [
    "bit-identical finite-shot results are demanded only between runs with the same seed, backend and worker count (parallel vs serial shot results may differ, as the property allows)",
    "a task that shares state with another task can only do so through objects reachable from its arguments; process pools are modelled by pickling arguments and results",
]

_ENV = {}
BACKENDS = {"serial": "SerialExec", "cf_threadpool": "ThreadPoolExec", "cf_procpool": "ProcPoolExec",
            "mp_pool": "MPPoolExec"}
ENUM_NAME = {"serial": "Serial", "cf_threadpool": "CF_ThreadPool", "cf_procpool": "CF_ProcPool",
             "mp_pool": "MP_Pool"}
K_SCHED = 3


def preimport():
    setup()  # numpy-only warm-up: starts no threads (the runner verifies that before forking)


def setup():
    if _ENV.get("ready"):
        return
    import warnings

    import numpy as np
    import pennylane as qp
    import pennylane.concurrency.executors.native.conc_futures as m_cf
    import pennylane.concurrency.executors.native.multiproc as m_mp
    from pennylane.concurrency.executors import backends

    from checks import qgen
    from simkit import simpool, simrng

    warnings.filterwarnings("ignore")
    simpool.patch_stdlib()

    class _Ctx:
        def __init__(self, method):
            self.Pool = simpool.SimMPPool

    m_cf.ThreadPoolExecutor = simpool.SimThreadPool
    m_cf.ProcessPoolExecutor = simpool.SimProcPool
    m_cf.get_context = _Ctx
    m_mp.get_context = _Ctx
    import sys

    m_sim = sys.modules["pennylane.devices.qubit.simulate"]  # the package attribute is the function
    assert hasattr(m_sim, "default_rng")
    simrng.patch_numpy([m_sim])
    _ENV.update(qp=qp, np=np, backends=backends, qgen=qgen, simpool=simpool, simrng=simrng)
    # warm lru caches / lazy imports outside any trace
    dev = qp.device("default.qubit", seed=1)
    t = qp.tape.QuantumScript([qp.RX(0.1, 0), qp.CNOT([0, 1])], [qp.expval(qp.Z(0)), qp.sample(wires=[0])], shots=3)
    dev.execute([t])
    _ENV["ready"] = True
    from simkit.core import Streams, derive_seed

    n = 0
    try:
        for i in range(400):  # warm lazily imported paths (thread backend excluded: no threads before fork)
            case = gen_case(Streams(derive_seed("warm", i)), "quick")
            if case["backend"] != "cf_threadpool":
                run_case(case)
                n += 1
            if n >= 60:
                break
    except Exception:  # noqa: BLE001 - warm-up only
        pass


# ------------------------------------------------------------------------------------------------
# generation
# ------------------------------------------------------------------------------------------------

DIFF_P1 = ["RX", "RY", "RZ", "PhaseShift"]


def _gen_tape(w, kind, uid):
    from checks import qgen

    n = w.randint(1, 4)
    wires = list(range(n))
    if kind == "analytic":
        ops = qgen.gen_ops(w, n, w.randint(2, 7))
        ops.append(["RX", [w.choice(wires)], [round(0.01 * uid + 0.123, 6)]])  # pairwise distinct
        mps = []
        for _ in range(w.randint(1, 3)):
            k = w.random()
            if k < 0.5:
                mps.append(["expval", qgen.gen_obs(w, wires)])
            elif k < 0.65:
                mps.append(["var", qgen.gen_pauli_word(w, wires)])
            elif k < 0.9:
                mps.append(["probs", sorted(w.sample(wires, w.randint(1, n)))])
            else:
                mps.append(["state"])
        return {"kind": kind, "ops": ops, "mps": mps, "shots": None}
    if kind == "det":
        bits = [w.randint(0, 1) for _ in wires]
        if uid < 2 ** n:  # make basis states distinct within the batch where possible
            bits = [(uid >> (n - 1 - i)) & 1 for i in range(n)]
        ops = [["PauliX", [i], []] for i, b in enumerate(bits) if b]
        for _ in range(w.randint(0, 2)):
            ops.append([w.choice(["PauliZ", "S", "T"]), [w.choice(wires)], []])
        shots = w.choice([1, 2, 3, 5, 8, [2, 3], [1, 1, 4]])
        mps = [["counts", wires]]
        if w.random() < 0.6:
            mps.append(["sample", wires])
        if w.random() < 0.5:
            ws = sorted(w.sample(wires, w.randint(1, n)))
            mps.append(["expval", ["P", "Z" * len(ws), ws]])
        return {"kind": kind, "ops": ops, "mps": mps, "shots": shots, "bits": bits}
    if kind == "shots":
        ops = qgen.gen_ops(w, n, w.randint(1, 6))
        shots = w.choice([1, 2, 5, 10, 17, 50, 100, [3, 4], [5, 5, 10], [1, 20]])
        mps = []
        for _ in range(w.randint(1, 3)):
            k = w.random()
            if k < 0.3:
                mps.append(["sample", sorted(w.sample(wires, w.randint(1, n)))])
            elif k < 0.5:
                mps.append(["counts", sorted(w.sample(wires, w.randint(1, n)))])
            elif k < 0.75:
                mps.append(["expval", qgen.gen_pauli_word(w, wires)])
            elif k < 0.85:
                mps.append(["var", qgen.gen_pauli_word(w, wires)])
            else:
                mps.append(["probs", sorted(w.sample(wires, w.randint(1, n)))])
        return {"kind": kind, "ops": ops, "mps": mps, "shots": shots}
    if kind == "diff":
        ops = []
        for _ in range(w.randint(2, 6)):
            k = w.random()
            if k < 0.5 or n == 1:
                ops.append([w.choice(DIFF_P1), [w.choice(wires)], [qgen.rand_angle(w)]])
            elif k < 0.7:
                ops.append([w.choice(qgen.G1), [w.choice(wires)], []])
            elif k < 0.85:
                ops.append([w.choice(qgen.G2), w.sample(wires, 2), []])
            else:
                ops.append([w.choice(qgen.P2), w.sample(wires, 2), [qgen.rand_angle(w)]])
        ops.append(["RY", [w.choice(wires)], [round(0.01 * uid + 0.3, 6)]])
        mps = [["expval", qgen.gen_pauli_word(w, wires)] for _ in range(w.randint(1, 2))]
        ntrain = sum(len(o[2]) for o in ops)
        return {"kind": kind, "ops": ops, "mps": mps, "shots": None,
                "cot": [round(w.uniform(-1, 1), 4) for _ in mps],
                "tan": [round(w.uniform(-1, 1), 4) for _ in range(ntrain)]}
    if kind == "dynamic":
        # mid-circuit measurements, classically controlled gates, reset / postselection, finite shots: the
        # device draws while it applies operations, not only when it measures
        n = max(n, 2)
        wires = list(range(n))
        dyn = [["RY", [i], [qgen.rand_angle(w)]] for i in wires]
        k = 0
        for _ in range(w.randint(2, 5)):
            r = w.random()
            if r < 0.45 and k < 3:
                dyn.append(["measure", w.choice(wires), w.random() < 0.3, (w.choice([0, 1]) if w.random() < 0.25 else None)])
                k += 1
            elif r < 0.75 and k > 0:
                dyn.append(["cond", w.randrange(k), qgen.gen_ops(w, n, 1)[0]])
            else:
                dyn.extend(qgen.gen_ops(w, n, 1))
        if k == 0:
            dyn.append(["measure", w.choice(wires), False, None])
        mps = [w.choice([["expval", qgen.gen_pauli_word(w, wires)], ["counts", sorted(w.sample(wires, w.randint(1, n)))],
                         ["probs", sorted(w.sample(wires, w.randint(1, n)))]])]
        return {"kind": kind, "dyn": dyn, "ops": [], "mps": mps, "shots": w.choice([1, 2, 5, 10, 17])}
    if kind == "projector":
        # a postselecting projector among the operations (what deferred measurements turn postselection
        # into): with shots the device thins them with a binomial draw
        ops = qgen.gen_ops(w, n, w.randint(1, 4))
        ops.append(["Projector", [w.choice(wires)], [[w.randint(0, 1)]]])
        ops.extend(qgen.gen_ops(w, n, w.randint(0, 2)))
        mps = [w.choice([["expval", qgen.gen_pauli_word(w, wires)], ["counts", sorted(w.sample(wires, w.randint(1, n)))]])]
        return {"kind": kind, "ops": ops, "mps": mps, "shots": w.choice([5, 10, 17, 50])}
    if kind == "invalid":  # a sampling measurement without shots: the device must raise
        return {"kind": kind, "ops": [["Hadamard", [0], []]], "mps": [["sample", [0]]], "shots": None}
    raise ValueError(kind)


def gen_case(streams, tier):
    w, s, f = streams["workload"], streams["schedule"], streams["fault"]
    backend = w.choice(["none", "serial", "cf_threadpool", "cf_threadpool", "cf_threadpool",
                        "cf_procpool", "cf_procpool", "mp_pool", "mp_pool", "mp_pool"])
    if backend == "none":
        mw = None
    elif backend == "serial":
        mw = 1
    else:
        mw = w.choice([1, 2, 2, 3, 4, 5, 6, 7, 8])
    inject_invalid = f.random() < 0.06
    calls = []
    for ci in range(w.randint(1, 3)):
        r = w.random()
        if r < 0.7:
            method = "execute"
        else:
            method = w.choice(["compute_derivatives", "execute_and_compute_derivatives", "compute_vjp",
                               "execute_and_compute_vjp", "compute_jvp", "execute_and_compute_jvp"])
        nt = w.choice([1, 2, 3, 3, 4, 5, 6, 8, 10])
        dyn_call = w.random() < 0.25  # batches with dynamic circuits
        tapes = []
        for ti in range(nt):
            if method == "execute":
                kind = w.choice(["analytic", "analytic", "det", "det", "shots", "shots", "shots"]
                                + (["dynamic", "dynamic", "projector"] if dyn_call else []))
            else:
                kind = "diff"
            tapes.append(_gen_tape(w, kind, ti))
        if inject_invalid and method == "execute" and ci == 0:
            tapes[f.randrange(len(tapes))] = _gen_tape(w, "invalid", 0)
        mcm_method = w.choice(["one-shot", "one-shot", "tree-traversal"])
        if mcm_method == "tree-traversal":
            # tree-traversal raises instead of returning NaN when postselection discards every shot
            # (C21, KF-C21-2/-3): whether that happens depends on the draws, which serial and parallel
            # execution may legitimately take differently, so it is kept out of this property's histories
            for t in tapes:
                for op in t.get("dyn", []):
                    if op[0] == "measure":
                        op[3] = None
        calls.append({"method": method, "tapes": tapes, "mcm_method": mcm_method,
                      "postselect_mode": w.choice([None, "hw-like", "fill-shots"])})
    entry = "device"
    plain = not any(t["kind"] in ("dynamic", "projector") for c in calls for t in c["tapes"])
    if all(c["method"] == "execute" for c in calls) and backend != "none" and w.random() < 0.3 and plain:
        entry = w.choice(["workflow_class", "workflow_str", "workflow_enum"])
    return {
        "dev_seed": w.randint(0, 2**31 - 1),
        # how "the same seed" is handed to the devices of one run: an integer, a list of integers, or ONE
        # numpy SeedSequence object that every device of the run is created from
        "seed_kind": w.choice(["int", "int", "int", "int_list", "seed_sequence_shared", "seed_sequence_shared",
                               "zero", "zero_np", "zero_list"]),
        "backend": backend,
        "max_workers": mw,
        "entry": entry,
        "calls": calls,
        "sched_seeds": [s.getrandbits(48) for _ in range(K_SCHED)],
        "durations": None,
    }


# ------------------------------------------------------------------------------------------------
# execution
# ------------------------------------------------------------------------------------------------


def _run_history(case, sched_seed, serial_ref=False, durations=None):
    """One simulated execution of the whole history on a fresh device. Returns (results, info)."""
    from simkit.core import Sim, Trace

    qp, np, qgen = _ENV["qp"], _ENV["np"], _ENV["qgen"]
    simpool, simrng, backends = _ENV["simpool"], _ENV["simrng"], _ENV["backends"]
    backend = case["backend"]
    sim = Sim(Trace(keep=False))
    mode = "l1" if backend == "cf_threadpool" else "l0"
    ps = simpool.PoolSim(sim, sched_rng=random.Random(sched_seed), durations=durations, mode=mode,
                         max_slices=400)
    hub = simrng.Hub()
    simpool.install(ps)
    simrng.install(hub)
    out = []
    try:
        mw = None if serial_ref else case["max_workers"]
        dev = qp.device("default.qubit", seed=_seed_of(case), max_workers=mw)
        cls = None
        if backend != "none":
            cls = backends.get_supported_backends()[backend]
        for call in case["calls"]:
            tapes = [_build(t) for t in call["tapes"]]
            try:
                m = call["method"]
                mcm = qp.devices.MCMConfig(mcm_method=call.get("mcm_method"), postselect_mode=call.get("postselect_mode")) \
                    if any(t["kind"] in ("dynamic", "projector") for t in call["tapes"]) else qp.devices.MCMConfig()
                if serial_ref or backend == "none":
                    cfg = qp.devices.ExecutionConfig(mcm_config=mcm)
                else:
                    cfg = qp.devices.ExecutionConfig(executor_backend=cls, mcm_config=mcm)
                if m == "execute":
                    if case["entry"] == "device" or serial_ref or backend == "none":
                        res = dev.execute(tapes, cfg)
                    else:
                        eb = {"workflow_class": cls, "workflow_str": backend,
                              "workflow_enum": getattr(backends.ExecBackends, ENUM_NAME[backend])}[case["entry"]]
                        res = qp.execute(tapes, dev, diff_method=None, cache=False, executor_backend=eb)
                elif m in ("compute_derivatives", "execute_and_compute_derivatives"):
                    res = getattr(dev, m)(tapes, cfg)
                elif m in ("compute_vjp", "execute_and_compute_vjp"):
                    cots = [tuple(t["cot"]) if len(t["cot"]) > 1 else t["cot"][0] for t in call["tapes"]]
                    res = getattr(dev, m)(tapes, cots, cfg)
                else:
                    tans = [tuple(t["tan"]) for t in call["tapes"]]
                    res = getattr(dev, m)(tapes, tans, cfg)
                out.append(("value", qgen.to_jsonable(res)))
            except Exception as e:  # noqa: BLE001 - an observation
                out.append(("raise", type(e).__name__, str(e)[:160]))
        sim.drain()
    finally:
        ps.cleanup()
        simpool.install(None)
        simrng.install(None)
    interleaved = 0
    if ps.slice_log:
        seen_open = {}
        last = None
        for tid, k in ps.slice_log:
            if last is not None and last != tid and k > 0:
                interleaved += 1
            last = tid
    info = {"inversions": ps.inversions(), "interleaved": interleaved, "tasks": ps.task_seq,
            "draws": hub.draws, "unseeded": hub.unseeded, "durations": list(ps.drawn),
            "sig": [ps.completion_order, ps.slice_log], "sim_time": sim.now,
            "max_in_flight": ps.max_in_flight, "deadlines": ps.timeouts_armed,
            "deadlines_expired": ps.timeouts_expired}
    return out, info


def _close(a, b, tol=1e-10):
    if isinstance(a, dict) and isinstance(b, dict):
        return a.keys() == b.keys() and all(_close(a[k], b[k], tol) for k in a)
    if isinstance(a, list) and isinstance(b, list):
        return len(a) == len(b) and all(_close(x, y, tol) for x, y in zip(a, b))
    if isinstance(a, (int, float)) and isinstance(b, (int, float)):
        return abs(a - b) <= tol
    return a == b


def _flat(x):
    if isinstance(x, list):
        for v in x:
            yield from _flat(v)
    else:
        yield x


def _check_det(tspec, res):
    """Exact expectation for a basis-state circuit: returns None if fine, else a description."""
    bits = tspec["bits"]
    shots = tspec["shots"]
    bins = shots if isinstance(shots, list) else [shots]
    per_bin = res if isinstance(shots, list) else [res]
    if len(per_bin) != len(bins):
        return f"expected {len(bins)} shot bins, got {len(per_bin)}"
    for s, r in zip(bins, per_bin):
        vals = r if len(tspec["mps"]) > 1 else [r]
        if len(vals) != len(tspec["mps"]):
            return "wrong number of measurement results"
        for mp, v in zip(tspec["mps"], vals):
            if mp[0] == "counts":
                key = "".join(str(bits[i]) for i in mp[1])
                if v != {key: s}:
                    return f"counts {v} != {{{key}: {s}}}"
            elif mp[0] == "sample":
                exp = [bits[i] for i in mp[1]] * s
                if list(_flat(v)) != exp:
                    return f"samples {list(_flat(v))[:12]} != {exp[:12]}"
            elif mp[0] == "expval":
                e = 1.0
                for i in mp[1][2]:
                    e *= 1 - 2 * bits[i]
                if not isinstance(v, (int, float)) or abs(v - e) > 1e-12:
                    return f"expval {v} != {e}"
    return None


def _build(t):
    qp, qgen = _ENV["qp"], _ENV["qgen"]
    if t["kind"] != "dynamic":
        return qgen.build_tape(t)
    with qp.queuing.AnnotatedQueue() as q:
        ms = []
        for op in t["dyn"]:
            if op[0] == "measure":
                ms.append(qp.measure(op[1], reset=op[2], postselect=op[3]))
            elif op[0] == "cond":
                g = op[2]
                qp.cond(ms[op[1]], getattr(qp, g[0]))(*g[2], wires=g[1])
            else:
                qgen.build_op(op)
        for m in t["mps"]:
            qgen.build_mp(m)
    return qp.tape.QuantumScript.from_queue(q, shots=t["shots"])


_SEED_OBJECTS = {}


def _seed_of(case):
    import numpy as np

    kind = case.get("seed_kind", "int")
    if kind == "zero":  # a perfectly good seed that happens to be falsy
        return 0
    if kind == "zero_np":
        return np.int64(0)
    if kind == "zero_list":
        return [0]
    if kind == "int_list":
        return [case["dev_seed"] % 1000, case["dev_seed"] // 1000]
    if kind == "seed_sequence_shared":
        if "ss" not in _SEED_OBJECTS:
            _SEED_OBJECTS["ss"] = np.random.SeedSequence(case["dev_seed"])
        return _SEED_OBJECTS["ss"]
    return case["dev_seed"]


def run_case(case):
    import hashlib
    import json

    _SEED_OBJECTS.clear()
    violations = []
    counters = {"histories": 1, "seed:" + case.get("seed_kind", "int"): 1}
    sig_base = {"backend": case["backend"], "entry": case["entry"]}
    runs = []
    drawn0 = None
    for k, ss in enumerate(case["sched_seeds"]):
        dur = case.get("durations") if k == 0 else None
        res, info = _run_history(case, ss, durations=dur)
        if k == 0:
            drawn0 = info["durations"]
        runs.append((res, info))
    ref, ref_info = _run_history(case, 0, serial_ref=True)

    # ---- O2: schedule independence / same seed => same results ----------------------------------
    def _ident(a, b):
        """Bit-identical results; NaN (every shot discarded by postselection) equals NaN."""
        if isinstance(a, (list, tuple)) and isinstance(b, (list, tuple)):
            return len(a) == len(b) and all(_ident(x, y) for x, y in zip(a, b))
        if isinstance(a, dict) and isinstance(b, dict):
            return a.keys() == b.keys() and all(_ident(a[k_], b[k_]) for k_ in a)
        if isinstance(a, float) and isinstance(b, float) and a != a and b != b:
            return True
        return a == b

    base = runs[0][0]
    for k in range(1, len(runs)):
        if not _ident(runs[k][0], base):
            ci = next(i for i, (a, b) in enumerate(zip(base, runs[k][0])) if not _ident(a, b))
            violations.append({
                "klass": "schedule_dependent_result",
                "sig": dict(sig_base, method=case["calls"][ci]["method"]),
                "detail": {"call": ci, "sched_a": case["sched_seeds"][0], "sched_b": case["sched_seeds"][k],
                           "a": json.dumps(base[ci])[:400], "b": json.dumps(runs[k][0][ci])[:400]},
            })
            break
    # ---- O1 + order + faults, per call, on every schedule ------------------------------------------
    for k, (res, info) in enumerate(runs):
        if violations:
            break
        for ci, call in enumerate(case["calls"]):
            got, exp = res[ci], ref[ci]
            sig = dict(sig_base, method=call["method"])
            has_invalid = any(t["kind"] == "invalid" for t in call["tapes"])
            if has_invalid:
                counters["fault:invalid_circuit_in_batch"] = 1
                if got[0] == "value":
                    violations.append({"klass": "missing_exception", "sig": sig,
                                       "detail": {"call": ci, "observed": json.dumps(got[1])[:300]}})
                continue
            if got[0] == "raise":
                if exp[0] == "raise":
                    continue  # serial raises too: nothing to compare
                violations.append({"klass": "unexpected_exception", "sig": sig,
                                   "detail": {"call": ci, "raised": got[1:], "sched": case["sched_seeds"][k]}})
                continue
            if exp[0] == "raise":
                continue
            gv, ev = got[1], exp[1]
            m = call["method"]
            if m == "execute":
                if not isinstance(gv, list) or len(gv) != len(call["tapes"]):
                    violations.append({"klass": "wrong_batch_length", "sig": sig,
                                       "detail": {"call": ci, "expected": len(call["tapes"]),
                                                  "observed": len(gv) if isinstance(gv, list) else "scalar"}})
                    continue
                for ti, t in enumerate(call["tapes"]):
                    if t["kind"] == "analytic" and not _close(gv[ti], ev[ti]):
                        violations.append({"klass": "analytic_mismatch_vs_serial", "sig": sig,
                                           "detail": {"call": ci, "tape": ti, "sched": case["sched_seeds"][k],
                                                      "parallel": json.dumps(gv[ti])[:300],
                                                      "serial": json.dumps(ev[ti])[:300],
                                                      "matches_other_position": [j for j in range(len(ev)) if _close(gv[ti], ev[j])]}})
                        break
                    if t["kind"] == "det":
                        why = _check_det(t, gv[ti])
                        if why:
                            violations.append({"klass": "deterministic_shot_result_wrong", "sig": sig,
                                               "detail": {"call": ci, "tape": ti, "why": why,
                                                          "sched": case["sched_seeds"][k]}})
                            break
            else:
                if not _close(gv, ev, 1e-9):
                    violations.append({"klass": "derivative_mismatch_vs_serial", "sig": sig,
                                       "detail": {"call": ci, "sched": case["sched_seeds"][k],
                                                  "parallel": json.dumps(gv)[:300], "serial": json.dumps(ev)[:300]}})
    inv = sum(i["inversions"] for _, i in runs)
    inter = sum(i["interleaved"] for _, i in runs)
    counters.update({
        "simulated_executions": len(runs) + 1,
        "tasks": sum(i["tasks"] for _, i in runs),
        "rng_draws": sum(i["draws"] for _, i in runs),
        "out_of_order_pairs": inv,
        "draw_interleavings": inter,
        "executions_out_of_order": sum(1 for _, i in runs if i["inversions"]),
        "executions_with_interleaved_draws": sum(1 for _, i in runs if i["interleaved"]),
        "unseeded_generators": sum(i["unseeded"] for _, i in runs),
        "dynamic_circuits": sum(1 for c in case["calls"] for t in c["tapes"] if t["kind"] in ("dynamic", "projector")),
        "deadlines_on_virtual_clock": sum(i.get("deadlines", 0) for _, i in runs),
        "deadlines_expired": sum(i.get("deadlines_expired", 0) for _, i in runs),
        "backend:" + case["backend"]: 1,
        "entry:" + case["entry"]: 1,
    })
    for c in case["calls"]:
        counters["method:" + c["method"]] = counters.get("method:" + c["method"], 0) + 1
    h = hashlib.sha256(json.dumps([base, [i["sig"] for _, i in runs]], sort_keys=True, default=str).encode())
    out_case = dict(case)
    out_case["durations"] = drawn0
    return {
        "violations": violations,
        "digest": h.hexdigest()[:24],
        "nontrivial": bool(inv or inter),
        "counters": counters,
        "sim_time": sum(i["sim_time"] for _, i in runs),
        "case": out_case,
        "summary": {"result_kinds": [r[0] for r in base],
                    "completion_orders": [i["sig"][0][:24] for _, i in runs],
                    "slice_log_first_schedule": runs[0][1]["sig"][1][:40]},
    }


def shrink_candidates(case):
    from simkit.runner import shrink_list

    for calls in shrink_list(case["calls"], 1):
        yield dict(case, calls=calls)
    for ci, call in enumerate(case["calls"]):
        for tapes in shrink_list(call["tapes"], 1):
            yield dict(case, calls=case["calls"][:ci] + [dict(call, tapes=tapes)] + case["calls"][ci + 1:])
    if len(case["sched_seeds"]) > 2:
        for i in range(len(case["sched_seeds"])):
            ss = case["sched_seeds"][:i] + case["sched_seeds"][i + 1:]
            yield dict(case, sched_seeds=ss, durations=None if i == 0 else case.get("durations"))
    if case["max_workers"] and case["max_workers"] > 2:
        yield dict(case, max_workers=2)
    if case["entry"] != "device":
        yield dict(case, entry="device")
    for ci, call in enumerate(case["calls"]):
        for ti, t in enumerate(call["tapes"]):
            if len(t["ops"]) > 1:
                for ops in shrink_list(t["ops"], 1):
                    nt = dict(t, ops=ops)
                    if t["kind"] == "diff":
                        nt["tan"] = t["tan"][: sum(len(o[2]) for o in ops)]
                        if len(nt["tan"]) != sum(len(o[2]) for o in ops):
                            continue
                    if t["kind"] == "det":
                        continue
                    tapes = call["tapes"][:ti] + [nt] + call["tapes"][ti + 1:]
                    yield dict(case, calls=case["calls"][:ci] + [dict(call, tapes=tapes)] + case["calls"][ci + 1:])
                    break
            if len(t["mps"]) > 1 and t["kind"] != "diff":
                nt = dict(t, mps=t["mps"][:1])
                tapes = call["tapes"][:ti] + [nt] + call["tapes"][ti + 1:]
                yield dict(case, calls=case["calls"][:ci] + [dict(call, tapes=tapes)] + case["calls"][ci + 1:])
    d = case.get("durations")
    if d and any(x != 1.0 for x in d):
        yield dict(case, durations=[1.0] * len(d))


# ------------------------------------------------------------------------------------------------
# conformance: the same histories on the REAL stdlib pools (never decides, never alarms)
# ------------------------------------------------------------------------------------------------


def conformance(root_seed, tier):
    """Execute a few histories on the real ThreadPoolExecutor (and, in the thorough tier, the real spawn
    process pools) and compare the results with what the simulated pools returned.  In correct code the
    results do not depend on the schedule at all, so plain equality is a schedule-independent oracle: it can
    miss a bug, it cannot raise a false alarm; disagreements are reported in the evidence only."""
    import concurrent.futures as cf
    import multiprocessing

    import pennylane.concurrency.executors.native.conc_futures as m_cf
    import pennylane.concurrency.executors.native.multiproc as m_mp

    from simkit.core import Streams, derive_seed

    simrng = _ENV["simrng"]
    sim_names = (m_cf.ThreadPoolExecutor, m_cf.ProcessPoolExecutor, m_cf.get_context, m_mp.get_context)
    want = {"quick": {"cf_threadpool": 4}, "thorough": {"cf_threadpool": 16, "cf_procpool": 2, "mp_pool": 2}}[tier]
    done = {k: 0 for k in want}
    validated, disagreements, idx = 0, [], 0
    try:
        while any(done[k] < want[k] for k in want) and idx < 3000:
            case = gen_case(Streams(derive_seed(root_seed, "C31-conformance", idx)), tier)
            idx += 1
            b = case["backend"]
            if b not in want or done[b] >= want[b] or case["entry"] != "device":
                continue
            if any(t["kind"] == "invalid" for c in case["calls"] for t in c["tapes"]):
                continue
            case = dict(case, max_workers=min(case["max_workers"], 3), calls=case["calls"][:2])
            sim_out, _ = _run_history(case, case["sched_seeds"][0])
            m_cf.ThreadPoolExecutor, m_cf.ProcessPoolExecutor = cf.ThreadPoolExecutor, cf.ProcessPoolExecutor
            m_cf.get_context = m_mp.get_context = multiprocessing.get_context
            simrng.install(None)
            try:
                real_out = _real_history(case)
            finally:
                (m_cf.ThreadPoolExecutor, m_cf.ProcessPoolExecutor, m_cf.get_context, m_mp.get_context) = sim_names
            done[b] += 1
            if _close(real_out, [list(x) for x in sim_out], 1e-10):
                validated += 1
            else:
                disagreements.append({"backend": b, "calls": [c["method"] for c in case["calls"]]})
    finally:
        (m_cf.ThreadPoolExecutor, m_cf.ProcessPoolExecutor, m_cf.get_context, m_mp.get_context) = sim_names
    return {"validated": validated, "histories_by_backend": done, "disagreements": disagreements[:5],
            "note": "results of the same seeded history on the real stdlib pools vs the simulated pools (bit-identical shot results expected)"}


def _real_history(case):
    qp, qgen, backends = _ENV["qp"], _ENV["qgen"], _ENV["backends"]
    dev = qp.device("default.qubit", seed=_seed_of(dict(case, seed_kind="int" if case.get("seed_kind") == "seed_sequence_shared" else case.get("seed_kind", "int"))), max_workers=case["max_workers"])
    cls = backends.get_supported_backends()[case["backend"]]
    out = []
    for call in case["calls"]:
        tapes = [_build(t) for t in call["tapes"]]
        mcm = qp.devices.MCMConfig(mcm_method=call.get("mcm_method"), postselect_mode=call.get("postselect_mode")) \
            if any(t["kind"] in ("dynamic", "projector") for t in call["tapes"]) else qp.devices.MCMConfig()
        cfg = qp.devices.ExecutionConfig(executor_backend=cls, mcm_config=mcm)
        try:
            m = call["method"]
            if m in ("execute", "compute_derivatives", "execute_and_compute_derivatives"):
                res = getattr(dev, m)(tapes, cfg)
            elif m in ("compute_vjp", "execute_and_compute_vjp"):
                cots = [tuple(t["cot"]) if len(t["cot"]) > 1 else t["cot"][0] for t in call["tapes"]]
                res = getattr(dev, m)(tapes, cots, cfg)
            else:
                res = getattr(dev, m)(tapes, [tuple(t["tan"]) for t in call["tapes"]], cfg)
            out.append(["value", qgen.to_jsonable(res)])
        except Exception as e:  # noqa: BLE001
            out.append(["raise", type(e).__name__, str(e)[:160]])
    return out
