"""C21 -- mid-circuit measurement methods agree with the exact (branch-enumerated) semantics.

 (A) analytic: deferred and tree-traversal results equal the branch enumerator's averaged result
     (reference validation: no simulator decision involved; reported separately in the evidence);
 (B) one-shot with shots: every binomial(1, p) of a mid-circuit measurement and every terminal
     choice(p=...) is a decision point at which the device *offers* a distribution and the simulator
     *chooses* the outcome.  Checked per shot: each offered p equals the reference conditional
     probability given the forced prefix, each terminal offer equals the reference conditional
     distribution of some requested measurement, and the value returned to the user is the documented
     function of the forced per-shot records (valid shots only under hw-like postselection);
 (C) tree-traversal with shots: every offered distribution must be the Born distribution of a
     reachable node of the reference outcome tree (marginal onto the measured wire for internal
     nodes, a requested terminal measurement's distribution for leaves).
"""
from __future__ import annotations

import random

ID = "C21"
LEVEL = "exploration"
TIERS = {
    "quick": {"runs": 8000, "wall": 80, "chunk": 50, "shrink_s": 40, "run_cap_s": 120},
    "thorough": {"runs": 400_000, "wall": 840, "chunk": 60, "shrink_s": 120, "run_cap_s": 120},
}
RULE = (
    "one run = one random dynamic circuit on 2-4 wires with 1-4 mid-circuit measurements (reset, "
    "postselect), gates conditioned on measurement-value expressions (not/and/or/arith/compare) and 1-3 "
    "terminal measurements of observables, wires and measurement values, executed in one of four modes: "
    "A-deferred / A-tree (analytic, vs the branch enumerator), B (one-shot, 1-8 shots, every measurement "
    "outcome and terminal draw decided by the simulator under a sampling or adversarial policy), C "
    "(tree-traversal with shots, every node's draw decided by the simulator). distinct = distinct digest of "
    "(mode, forced histories, results); non-trivial = a forced history in which some measurement came out 1, "
    "or a conditioned gate fired, or a shot was discarded by postselection."
)
SIM_TIME_NOTE = "no clock on this path"
REAL = ["defer_measurements, dynamic_one_shot (+ gather functions), simulate_one_shot_native_mcm, simulate_tree_mcm",
        "apply_mid_measure, apply_conditional, MeasurementValue arithmetic, postselection post-processing",
        "QNode(mcm_method=..., postselect_mode=...) through the whole workflow"]
STUBBED = ["numpy Generator.binomial / .choice -> simkit hub decides every outcome (modes B, C)"]
NOT_INJECTED = ["clock/network/disk faults: none exist on this path",
                "fill-shots postselection in one-shot mode and JAX PRNG keys: not driven in this implementation"]
ASSUMPTIONS = [
    "mode A is reference validation (input generation against an independent model); it is counted separately and is not what the technique contributes",
    "in one-shot mode every mid-circuit measurement draws exactly one binomial per shot, in program order",
    "mode C checks every offered distribution and the consistency of returned statistics, not the shot bookkeeping of the traversal (that is covered analytically by mode A)",
]

_ENV = {}
MODES = ["A_deferred", "A_tree", "B", "B", "B", "C", "C", "C", "D"]
POLICIES = ["sample", "sample", "zeros", "ones", "rare", "alternate"]


def preimport():
    setup()


def setup():
    if _ENV.get("ready"):
        return
    import warnings

    import numpy as np
    import pennylane as qp

    from checks import c29, qgen
    from ref import branch, sim
    from simkit import simrng

    warnings.filterwarnings("ignore")
    _ENV.update(qp=qp, np=np, qgen=qgen, sim=sim, branch=branch, simrng=simrng, c29=c29, ready=True)
    c29._ENV.update(qp=qp, np=np, qgen=qgen, sim=sim, simrng=simrng)
    from simkit.core import Streams, derive_seed

    try:
        for i in range(60):
            run_case(gen_case(Streams(derive_seed("warm", i)), "quick"))
    except Exception:  # noqa: BLE001 - warm-up only
        pass


# ------------------------------------------------------------------------------------------------
# generation
# ------------------------------------------------------------------------------------------------


def _gen_expr(w, k_avail, depth=0):
    """Logical operators over plain measurements / comparisons; arithmetic only over plain measurements
    (numpy refuses to subtract booleans, so `(~m0) - m1` is not a meaningful program)."""
    ks = list(range(k_avail))
    plain = lambda: ["m", w.choice(ks)]  # noqa: E731
    r = w.random()
    if depth >= 2 or r < 0.45:
        return plain()
    if r < 0.55:
        return ["not", _gen_expr(w, k_avail, depth + 1)]
    if r < 0.72:
        return [w.choice(["and", "or"]), _gen_expr(w, k_avail, depth + 1), _gen_expr(w, k_avail, depth + 1)]
    if r < 0.82:
        return [w.choice(["add", "sub"]), plain(), plain()]
    if r < 0.92:
        return ["eq", ["add", plain(), plain()], w.choice([0, 1, 2])]
    return ["gt", ["add", plain(), plain()], w.choice([0, 1])]


def gen_case(streams, tier):
    from checks import qgen

    w, s = streams["workload"], streams["rngseam"]
    n = w.choice([2, 2, 3, 3, 4])
    wires = list(range(n))
    mode = w.choice(MODES)
    ops = [["RY", [i], [qgen.rand_angle(w)]] for i in wires]
    k = 0
    n_mcm = w.randint(1, 4)
    use_postselect = w.random() < 0.35
    for _ in range(w.randint(3, 10)):
        r = w.random()
        if r < 0.30 and k < n_mcm:
            opt = {"reset": w.random() < 0.3, "postselect": (w.choice([0, 1]) if use_postselect and w.random() < 0.5 else None)}
            ops.append(["measure", w.choice(wires), opt])
            k += 1
        elif r < 0.60 and k > 0:
            g = qgen.gen_ops(w, n, 1)[0]
            ops.append(["cond", _gen_expr(w, k), g])
        else:
            ops.extend(qgen.gen_ops(w, n, 1))
    if k == 0:
        ops.append(["measure", w.choice(wires), {"reset": False, "postselect": None}])
        k = 1
        ops.append(["cond", ["m", 0], qgen.gen_ops(w, n, 1)[0]])
    shots_mode = mode in ("B", "C", "D")
    if mode == "D":
        # deferred measurements with shots: what matters is how postselection thins the shots
        use_postselect = True
        for o in ops:
            if o[0] == "measure" and o[2]["postselect"] is None and w.random() < 0.7:
                o[2]["postselect"] = w.choice([0, 1])
    mps = []
    for _ in range(w.randint(1, 3)):
        r = w.random()
        if r < 0.25:
            mps.append(["expval", qgen.gen_pauli_word(w, wires)])
        elif r < 0.33:
            mps.append(["expval", ["H", w.getrandbits(30), [w.choice(wires)]]])
        elif r < 0.42:
            mps.append(["var", qgen.gen_pauli_word(w, wires)])
        elif r < 0.55:
            mps.append(["probs", w.sample(wires, w.randint(1, min(3, n)))])
        elif r < 0.70:
            mps.append(["expval_mv", _gen_expr(w, k)])
        elif r < 0.78:
            mps.append(["var_mv", _gen_expr(w, k)])
        elif r < 0.88:
            mps.append(["probs_mv", sorted(w.sample(range(k), w.randint(1, min(2, k))))])
        elif shots_mode and r < 0.94:
            mps.append(["counts_mv", w.randrange(k)])
        elif shots_mode:
            mps.append(["counts", w.sample(wires, w.randint(1, min(2, n)))])
        else:
            mps.append(["expval", qgen.gen_pauli_word(w, wires)])
    return {"n": n, "ops": ops, "mps": mps, "mode": mode,
            "shots": ((w.choice([1, 2, 3, 4, 5, 6, 8]) if mode != "D" else w.choice([5, 8, 13, 20, 40]))
                      if shots_mode else None),
            "postselect_mode": ((w.choice([None, "hw-like"]) if mode != "D" else w.choice([None, "hw-like", "fill-shots"]))
                                if use_postselect else None),
            "policy": s.choice(POLICIES), "decide_seed": s.getrandbits(32)}


# ------------------------------------------------------------------------------------------------
# building the PennyLane program
# ------------------------------------------------------------------------------------------------


def _mv(expr, ms):
    k = expr[0]
    if k == "m":
        return ms[expr[1]]
    if k == "not":
        return ~_mv(expr[1], ms)
    if k == "and":
        return _mv(expr[1], ms) & _mv(expr[2], ms)
    if k == "or":
        return _mv(expr[1], ms) | _mv(expr[2], ms)
    if k == "add":
        return _mv(expr[1], ms) + _mv(expr[2], ms)
    if k == "sub":
        return _mv(expr[1], ms) - _mv(expr[2], ms)
    if k == "mul":
        return _mv(expr[1], ms) * expr[2]
    if k == "eq":
        return _mv(expr[1], ms) == expr[2]
    if k == "gt":
        return _mv(expr[1], ms) > expr[2]
    if k == "lt":
        return _mv(expr[1], ms) < expr[2]
    raise ValueError(k)


def _qfunc(case):
    qp, qgen = _ENV["qp"], _ENV["qgen"]

    def circuit():
        ms = []
        for op in case["ops"]:
            if op[0] == "measure":
                ms.append(qp.measure(op[1], reset=op[2]["reset"], postselect=op[2]["postselect"]))
            elif op[0] == "cond":
                g = op[2]
                qp.cond(_mv(op[1], ms), getattr(qp, g[0]))(*g[2], wires=g[1])
            else:
                qgen.build_op(op)
        out = []
        for mp in case["mps"]:
            kind = mp[0]
            if kind == "expval_mv":
                out.append(qp.expval(_mv(mp[1], ms)))
            elif kind == "var_mv":
                out.append(qp.var(_mv(mp[1], ms)))
            elif kind == "probs_mv":
                out.append(qp.probs(op=[ms[k] for k in mp[1]] if len(mp[1]) > 1 else ms[mp[1][0]]))
            elif kind == "counts_mv":
                out.append(qp.counts(ms[mp[1]]))
            else:
                out.append(qgen.build_mp(mp))
        return tuple(out) if len(out) > 1 else out[0]

    return circuit


def _reference_value(tree, mp):
    kind = mp[0]
    if kind == "expval":
        return tree.expval(mp[1])
    if kind == "var":
        return tree.var(mp[1])
    if kind == "probs":
        return tree.probs(mp[1])
    if kind == "expval_mv":
        return tree.expval_mv(mp[1])
    if kind == "var_mv":
        return tree.var_mv(mp[1])
    if kind == "probs_mv":
        return tree.probs_mv(mp[1])
    return None


# ------------------------------------------------------------------------------------------------
# scripted hub for modes B and C
# ------------------------------------------------------------------------------------------------


def _make_hub(case):
    np, simrng = _ENV["np"], _ENV["simrng"]
    policy = case["policy"]

    class MCMHub(simrng.Hub):
        def __init__(self):
            super().__init__(yield_at_draw=False)
            self.offers = []
            self.n_binom = 0

        def _pick(self, p, tag):
            """Index into the distribution p, depending only on (decide_seed, tag, p)."""
            p = np.asarray(p, dtype=float)
            support = np.nonzero(p > 1e-9)[0]
            if len(support) == 0:
                support = np.arange(len(p))
            order = support[np.argsort(-p[support], kind="stable")]
            if policy == "zeros":
                return int(support[0])
            if policy == "ones":
                return int(support[-1])
            if policy == "rare":
                return int(order[-1])
            if policy == "alternate":
                return int(order[tag % len(order)])
            r = random.Random(f"{case['decide_seed']}:{tag}:{np.round(p, 9).tobytes().hex()[:64]}")
            u = r.random()
            cdf = np.cumsum(p[support]) / p[support].sum()
            return int(support[min(int(np.searchsorted(cdf, u, side='right')), len(support) - 1)])

        def on_draw(self, gen, method, args, kwargs):
            self.draws += 1
            if method == "binomial":
                nn, p = args[0], float(np.asarray(args[1]).reshape(-1)[0])
                if nn != 1 or case.get("mode") == "D":
                    nn = int(nn)
                    # how many of nn shots survive a postselection: any count with non-zero probability is a
                    # legal answer; the policy picks one (never 0 of a positive number unless p is 0)
                    if p <= 1e-12:
                        kept = 0
                    elif p >= 1 - 1e-12 or policy == "ones":
                        kept = nn
                    elif policy == "zeros":
                        kept = 1 if nn > 1 else nn
                    elif policy == "rare":
                        kept = max(1, nn // 2)
                    elif policy == "alternate":
                        kept = max(1, nn - 1)
                    else:
                        kept = max(1, min(nn, int(round(nn * p))))
                    self.offers.append({"kind": "binomial_n", "n": nn, "p": p, "out": kept})
                    return np.int64(kept)
                out = self._pick([1 - p, p], self.n_binom)
                self.n_binom += 1
                self.offers.append({"kind": "binomial", "p": p, "out": out})
                return np.int64(out)
            if method == "choice":
                a = args[0]
                size = args[1] if len(args) > 1 else kwargs.get("size")
                p = kwargs.get("p")
                if p is None:
                    return simrng.PASS
                a = np.arange(a) if isinstance(a, (int, np.integer)) else np.asarray(a)
                nsz = int(np.prod(size)) if size is not None else 1
                if nsz == 0:
                    return simrng.PASS  # no shot left to draw for
                shot_tag = self.n_binom  # identical offers between two binomials get identical answers
                idx = np.array([self._pick(p, shot_tag * 1000 + j) for j in range(nsz)], dtype=int)
                self.offers.append({"kind": "choice", "p": np.array(p, dtype=float), "size": nsz, "idx": idx})
                out = a[idx]
                return out[0] if size is None else out.reshape(size)
            return simrng.PASS

    return MCMHub()


# ------------------------------------------------------------------------------------------------
# execution
# ------------------------------------------------------------------------------------------------


def _close(a, b, tol=1e-8):
    np = _ENV["np"]
    a, b = np.asarray(a), np.asarray(b)
    if np.iscomplexobj(a) and np.abs(np.imag(a)).max(initial=0) > tol:
        return False
    a, b = np.real(a).astype(float).reshape(-1), np.real(b).astype(float).reshape(-1)
    return a.shape == b.shape and bool(np.allclose(a, b, atol=tol, rtol=0))


def run_case(case):
    import hashlib
    import json

    qp, np, sim, branch, simrng, c29 = (_ENV[k] for k in ("qp", "np", "sim", "branch", "simrng", "c29"))
    n, mode = case["n"], case["mode"]
    K = sum(1 for o in case["ops"] if o[0] == "measure")
    violations = []
    has_ps = any(o[0] == "measure" and o[2]["postselect"] is not None for o in case["ops"])
    mv_mps = [mp for mp in case["mps"] if mp[0].endswith("_mv")]
    sig = {"mode": mode, "has_postselect": has_ps, "has_mv_measurement": bool(mv_mps),
           "multiple_measurements": len(case["mps"]) > 1,
           "mv_expression": any(mp[0] in ("expval_mv", "var_mv") and mp[1][0] != "m" for mp in mv_mps)}
    counters = {"mode:" + mode: 1, "mcms": K}

    def viol(klass, extra, detail):
        if len(violations) < 3:
            violations.append({"klass": klass, "sig": dict(sig, **extra), "detail": detail})

    tree = branch.Tree(case["ops"], n)
    if tree.valid_mass() < 1e-9:
        counters["skipped_zero_probability_postselection"] = 1
        return {"violations": [], "digest": "skip", "nontrivial": False, "counters": counters,
                "sim_time": 0.0, "case": case, "summary": {"skipped": True}}
    method = {"A_deferred": "deferred", "A_tree": "tree-traversal", "B": "one-shot", "C": "tree-traversal",
              "D": "deferred"}[mode]
    hub = _make_hub(case) if mode in ("B", "C", "D") else None
    seed = simrng.SimGenerator(np.random.PCG64(7), hub) if hub is not None else 7
    dev = qp.device("default.qubit", seed=seed)
    qn = qp.QNode(_qfunc(case), dev, mcm_method=method, postselect_mode=case["postselect_mode"],
                  diff_method=None, cache=False)
    if case["shots"]:
        qn = qp.set_shots(qn, shots=case["shots"])
    try:
        res = qn()
    except Exception as e:  # noqa: BLE001
        viol("unexpected_exception", {"exc": type(e).__name__}, {"error": repr(e)[:300]})
        res = None
    mps = case["mps"]
    results = None
    if res is not None:
        results = list(res) if len(mps) > 1 else [res]
        if len(results) != len(mps):
            viol("result_structure_wrong", {}, {"expected": len(mps), "observed": len(results)})
            results = None
    nontrivial = False
    forced = []
    # ---------------------------------------------------------------------------------- mode A ----------
    if results is not None and mode.startswith("A"):
        nontrivial = any(any(b.h) for b in tree.leaves)
        counters["analytic_comparisons"] = len(mps)
        for mp, got in zip(mps, results):
            exp = _reference_value(tree, mp)
            if exp is None:
                continue
            if not _close(got, exp, 1e-7):
                try:
                    is_nan = bool(np.isnan(np.real(np.asarray(got)).astype(float)).any())
                except Exception:  # noqa: BLE001
                    is_nan = False
                viol("analytic_result_differs_from_branch_average", {"mp": mp[0], "observed_nan": is_nan},
                     {"measurement": mp, "expected": np.round(np.asarray(exp, dtype=float), 8).tolist(),
                      "observed": np.round(np.real(np.asarray(got)).astype(float), 8).tolist(),
                      "branches": [[list(b.h), round(b.prob, 6), b.valid] for b in tree.leaves][:16]})
                break
    # ---------------------------------------------------------------------------------- mode B ----------
    if results is not None and mode == "B":
        shots = case["shots"]
        groups, cur = [], None
        for off in hub.offers:
            if off["kind"] == "binomial":
                if cur is None or len(cur["b"]) >= K:
                    cur = {"b": [], "c": []}
                    groups.append(cur)
                cur["b"].append(off)
            elif off["kind"] == "choice" and cur is not None:
                cur["c"].append(off)
        if len(groups) != shots or any(len(g["b"]) != K for g in groups):
            viol("one_shot_protocol_unexpected", {},
                 {"shots": shots, "mcms": K, "groups": [[len(g["b"]), len(g["c"])] for g in groups][:10]})
        else:
            valid, per_shot_vals = [], {mi: [] for mi in range(len(mps))}
            vmaps = {}
            ambiguous = set()
            for si, g in enumerate(groups):
                h = ()
                ok = True
                for j, off in enumerate(g["b"]):
                    node = tree.nodes.get(h)
                    if node is None:
                        viol("forced_history_unreachable_in_reference", {}, {"shot": si, "prefix": list(h)})
                        ok = False
                        break
                    if abs(node[1] - off["p"]) > 1e-7:
                        viol("mcm_offered_probability_wrong", {"depth": j},
                             {"shot": si, "prefix": list(h), "offered_p1": off["p"], "reference_p1": node[1]})
                        ok = False
                        break
                    h = h + (off["out"],)
                if not ok:
                    break
                forced.append(list(h))
                leaf = next((b for b in tree.leaves if b.h == h), None)
                if leaf is None:
                    viol("forced_history_unreachable_in_reference", {}, {"shot": si, "history": list(h)})
                    break
                is_valid = leaf.valid
                valid.append(is_valid)
                # terminal offers of this shot
                explained = [False] * len(g["c"])
                for mi, mp in enumerate(mps):
                    if mp[0].endswith("_mv"):
                        continue
                    atom = c29._atoms(mp)[0]
                    key = json.dumps(atom)
                    if key not in vmaps:
                        vmaps[key] = c29._value_map(atom, n)
                    vmap = vmaps[key]
                    R = c29._reference_dist(atom, leaf.state, n)
                    val = None
                    cand_vals = set()
                    for ci, off in enumerate(g["c"]):
                        p = off["p"]
                        if len(p) != 2**n or off["size"] != 1:
                            continue
                        D = {}
                        for i, q in enumerate(p):
                            if q > 1e-13:
                                D[vmap[i]] = D.get(vmap[i], 0.0) + float(q)
                        if c29._dist_close(D, R):
                            explained[ci] = True
                            cand_vals.add(vmap[int(off["idx"][0])])
                    if len(cand_vals) == 1:
                        val = next(iter(cand_vals))
                    elif len(cand_vals) > 1:
                        # several different offers of this shot have the right distribution for this
                        # measurement (e.g. two observables with the same spectrum): which one fed it is
                        # not observable, so the aggregated value of this measurement is not compared
                        ambiguous.add(mi)
                        val = "?"
                    if not cand_vals and g["c"]:
                        viol("terminal_offer_missing_for_measurement", {"mp": mp[0]},
                             {"shot": si, "history": list(h), "measurement": mp,
                              "reference": {str(k): round(v, 6) for k, v in R.items()},
                              "offers": [np.round(o["p"], 5).tolist()[:16] for o in g["c"][:4]]})
                        break
                    per_shot_vals[mi].append(val)
                if violations:
                    break
                if g["c"] and not all(explained):
                    ci = explained.index(False)
                    viol("terminal_offer_matches_no_measurement", {},
                         {"shot": si, "history": list(h), "p": np.round(g["c"][ci]["p"], 5).tolist()[:32]})
                    break
            nontrivial = any(any(h) for h in forced) or (valid and not all(valid))
            counters["forced_histories"] = len(forced)
            counters["shots_discarded_by_postselection"] = sum(1 for v in valid if not v)
            counters["decision_points"] = len(hub.offers)
            if not violations and len(valid) == shots:
                hs = [tuple(h) for h, v in zip(forced, valid) if v]
                if not hs:
                    counters["all_shots_invalid"] = 1
                else:
                    for mi, (mp, got) in enumerate(zip(mps, results)):
                        kind = mp[0]
                        vals = [v for v, ok in zip(per_shot_vals[mi], valid) if ok]
                        exp = None
                        if kind == "expval_mv":
                            exp = float(np.mean([branch.eval_expr(mp[1], h) for h in hs]))
                        elif kind == "var_mv":
                            exp = float(np.var([branch.eval_expr(mp[1], h) for h in hs]))
                        elif kind == "probs_mv":
                            f = np.zeros(2 ** len(mp[1]))
                            for h in hs:
                                idx = 0
                                for kk in mp[1]:
                                    idx = (idx << 1) | h[kk]
                                f[idx] += 1
                            exp = f / len(hs)
                        elif kind == "counts_mv":
                            t = {}
                            for h in hs:
                                t[int(h[mp[1]])] = t.get(int(h[mp[1]]), 0) + 1
                            g2 = {int(float(k)): int(v) for k, v in dict(got).items() if int(v)}
                            if g2 != t:
                                viol("one_shot_result_not_function_of_forced_records", {"mp": kind},
                                     {"measurement": mp, "expected": t, "observed": g2, "histories": forced})
                            continue
                        elif mi in ambiguous or any(v is None or v == "?" for v in vals):
                            counters["ambiguous_associations"] = counters.get("ambiguous_associations", 0) + 1
                            continue
                        elif kind == "expval":
                            exp = float(np.mean(vals))
                        elif kind == "var":
                            exp = float(np.var(vals))
                        elif kind == "probs":
                            f = np.zeros(2 ** len(mp[1]))
                            for v in vals:
                                idx = 0
                                for b in v:
                                    idx = (idx << 1) | b
                                f[idx] += 1
                            exp = f / len(vals)
                        elif kind == "counts":
                            t = {}
                            for v in vals:
                                kk = "".join(map(str, v))
                                t[kk] = t.get(kk, 0) + 1
                            g2 = {str(k): int(v) for k, v in dict(got).items() if int(v)}
                            if g2 != t:
                                viol("one_shot_result_not_function_of_forced_records", {"mp": kind},
                                     {"measurement": mp, "expected": t, "observed": g2})
                            continue
                        if exp is not None and not _close(got, exp, 1e-8):
                            viol("one_shot_result_not_function_of_forced_records", {"mp": kind},
                                 {"measurement": mp, "expected": np.asarray(exp).tolist(),
                                  "observed": np.asarray(got, dtype=float).tolist(),
                                  "histories": forced, "valid": valid})
    # ---------------------------------------------------------------------------------- mode C ----------
    if results is not None and mode == "C":
        offers = [o for o in hub.offers if o["kind"] == "choice"]
        counters["decision_points"] = len(offers)
        vmaps = {}
        nodes = list(tree.nodes.items())
        for oi, off in enumerate(offers):
            p = off["p"]
            if len(p) != 2**n:
                continue
            ok = False
            # an internal node: marginal onto the measured wire equals the reference conditional p1
            for prefix, (st, p1, wire) in nodes:
                m1 = sum(float(q) for i, q in enumerate(p) if (i >> (n - 1 - wire)) & 1)
                if abs(m1 - p1) < 1e-7 and _close(p, np.abs(st) ** 2, 1e-7):
                    ok = True
                    break
            if not ok:
                for leaf in tree.leaves:
                    for mp in mps:
                        if mp[0].endswith("_mv"):
                            continue
                        atom = c29._atoms(mp)[0]
                        key = json.dumps(atom)
                        if key not in vmaps:
                            vmaps[key] = c29._value_map(atom, n)
                        vmap = vmaps[key]
                        R = c29._reference_dist(atom, leaf.state, n)
                        D = {}
                        for i, q in enumerate(p):
                            if q > 1e-13:
                                D[vmap[i]] = D.get(vmap[i], 0.0) + float(q)
                        if c29._dist_close(D, R):
                            ok = True
                            break
                    if ok:
                        break
            if not ok:
                viol("tree_offer_is_no_reachable_reference_distribution", {},
                     {"offer": oi, "size": off["size"], "p": np.round(p, 5).tolist()[:32],
                      "reference_nodes": [[list(pr), round(v[1], 5), v[2]] for pr, v in nodes][:12]})
                break
        nontrivial = len(offers) > 1
        # consistency of the returned statistics
        if not violations:
            shots = case["shots"]
            for mp, got in zip(mps, results):
                kind = mp[0]
                g = np.real(np.asarray(got)).astype(float) if kind not in ("counts", "counts_mv") else None
                if g is not None and np.isnan(g).any():
                    counters["all_shots_invalid"] = 1
                    continue
                if kind in ("probs", "probs_mv") and (abs(g.sum() - 1) > 1e-8 or (g < -1e-12).any()):
                    viol("tree_statistics_inconsistent", {"mp": kind}, {"observed": g.tolist()})
                if kind in ("counts", "counts_mv") and not isinstance(got, dict):
                    counters["all_shots_invalid"] = 1
                    continue
                if kind in ("counts", "counts_mv"):
                    tot = sum(int(v) for v in dict(got).values())
                    if tot > shots or (case["postselect_mode"] is None and not any(
                            o[0] == "measure" and o[2]["postselect"] is not None for o in case["ops"]) and tot != shots):
                        viol("tree_statistics_inconsistent", {"mp": kind}, {"total": tot, "shots": shots})
                if kind == "expval_mv" and mp[1][0] == "m":
                    valid_n = [k for k in range(1, shots + 1) if abs(g * k - round(float(g * k))) < 1e-8]
                    if not valid_n or not (-1e-9 <= g <= 1 + 1e-9):
                        viol("tree_statistics_inconsistent", {"mp": kind}, {"observed": float(g), "shots": shots})
    # ---- mode C, shot bookkeeping: the per-history shot counts follow from the decided draws alone -------
    if results is not None and mode == "C" and not violations:
        mcm_offers = [o for o in hub.offers if o["kind"] == "choice" and len(o["p"]) == 2**n]
        ps_of = [o[2]["postselect"] for o in case["ops"] if o[0] == "measure"]
        leaf_counts = {}
        reconstructable = [True]

        def descend(prefix, shots_here, valid):
            if shots_here == 0:
                return
            if len(prefix) == K:
                if valid:
                    leaf_counts[prefix] = leaf_counts.get(prefix, 0) + shots_here
                return
            node = tree.nodes.get(prefix)
            if node is None:
                reconstructable[0] = False
                return
            st, p1, wire = node
            ref_p = np.abs(st) ** 2
            # identical offers get identical answers from the hub, so any matching offer will do
            cands = [o for o in mcm_offers if o["size"] == shots_here and _close(o["p"], ref_p, 1e-7)]
            # several draws can look like this node's (a measurement that does not change the state leaves the
            # same distribution one level down); the split is only known if they were all answered alike
            if not cands or len({tuple(int(i) for i in o["idx"]) for o in cands}) != 1:
                reconstructable[0] = False
                return
            off = cands[0]
            bits = [(int(i) >> (n - 1 - wire)) & 1 for i in off["idx"]]
            n1 = sum(bits)
            k = len(prefix)
            for outcome, cnt in ((0, shots_here - n1), (1, n1)):
                ok = valid and (ps_of[k] is None or ps_of[k] == outcome)
                if ps_of[k] is not None and ps_of[k] != outcome:
                    continue  # discarded by postselection: nothing below it is sampled
                descend(prefix + (outcome,), cnt, ok)

        descend((), case["shots"], True)
        if not reconstructable[0]:
            counters["tree_counts_not_reconstructable"] = 1
        else:
            counters["tree_bookkeeping_checked"] = 1
            nv = sum(leaf_counts.values())
            for mp, got in zip(mps, results):
                kind = mp[0]
                if not kind.endswith("_mv") or nv == 0:
                    continue
                if kind == "expval_mv":
                    exp = sum(c * branch.eval_expr(mp[1], hh) for hh, c in leaf_counts.items()) / nv
                elif kind == "var_mv":
                    m1 = sum(c * branch.eval_expr(mp[1], hh) for hh, c in leaf_counts.items()) / nv
                    m2 = sum(c * branch.eval_expr(mp[1], hh) ** 2 for hh, c in leaf_counts.items()) / nv
                    exp = m2 - m1 ** 2
                elif kind == "probs_mv":
                    exp = np.zeros(2 ** len(mp[1]))
                    for hh, c in leaf_counts.items():
                        ix = 0
                        for kk in mp[1]:
                            ix = (ix << 1) | int(hh[kk])
                        exp[ix] += c / nv
                else:  # counts_mv
                    exp = {}
                    for hh, c in leaf_counts.items():
                        exp[int(hh[mp[1]])] = exp.get(int(hh[mp[1]]), 0) + c
                    try:
                        gd = {int(float(a)): int(b) for a, b in dict(got).items() if int(b)}
                    except Exception:  # noqa: BLE001
                        gd = None
                    if gd != {a: b for a, b in exp.items() if b}:
                        viol("tree_statistic_is_not_the_function_of_the_decided_draws", {"mp": kind},
                             {"measurement": mp, "expected": exp, "observed": repr(got)[:200],
                              "shots_per_history": {str(list(hh)): c for hh, c in leaf_counts.items()}})
                    continue
                try:
                    g = np.real(np.asarray(got)).astype(float)
                except Exception:  # noqa: BLE001
                    continue
                if np.isnan(g).any():
                    continue
                if g.shape != np.asarray(exp).shape or not np.allclose(g, exp, atol=1e-9):
                    viol("tree_statistic_is_not_the_function_of_the_decided_draws", {"mp": kind},
                         {"measurement": mp, "expected": np.round(np.asarray(exp, dtype=float), 8).tolist(),
                          "observed": np.round(g, 8).tolist(),
                          "shots_per_history": {str(list(hh)): c for hh, c in leaf_counts.items()}})
    # ---- mode C, ordinary observables: the terminal draws of every history, weighted by its shots -------
    if results is not None and mode == "C" and not violations and locals().get("reconstructable", [False])[0]:
        leaf_state = {b.h: b.state for b in tree.leaves}
        term_offers = [o for o in hub.offers if o["kind"] == "choice" and len(o["p"]) == 2**n]
        nv = sum(leaf_counts.values())
        for mp, got in zip(mps, results):
            kind = mp[0]
            if kind not in ("expval", "var", "probs") or nv == 0:
                continue
            atoms = c29._atoms(mp)
            if len(atoms) != 1:
                continue
            atom = atoms[0]
            key = json.dumps(atom)
            vmap = c29._value_map(atom, n)
            vals = []
            ok_all = True
            for hh, cnt in leaf_counts.items():
                if cnt == 0:
                    continue
                R = c29._reference_dist(atom, leaf_state[hh], n)
                matches = {}
                for off in term_offers:
                    if off["size"] != cnt:
                        continue
                    D = {}
                    for i, q in enumerate(off["p"]):
                        if q > 1e-13:
                            D[vmap[i]] = D.get(vmap[i], 0.0) + float(q)
                    if c29._dist_close(D, R):
                        matches[tuple(vmap[int(i)] for i in off["idx"])] = off
                # which draw fed this measurement on this history must be beyond doubt: an internal node's
                # draw (or another measurement's) can look the same under this observable's value map
                if len(matches) != 1:
                    ok_all = False
                    break
                vals.extend(next(iter(matches)))
            if not ok_all or len(vals) != nv:
                counters["tree_terminal_draws_not_attributable"] = counters.get("tree_terminal_draws_not_attributable", 0) + 1
                continue
            counters["tree_observable_results_checked"] = counters.get("tree_observable_results_checked", 0) + 1
            try:
                g = np.real(np.asarray(got)).astype(float)
            except Exception:  # noqa: BLE001
                continue
            if np.isnan(g).any():
                continue
            if kind == "probs":
                k_ = len(mp[1])
                exp = np.zeros(2**k_)
                for v in vals:
                    ix = 0
                    for bit in v:
                        ix = (ix << 1) | int(bit)
                    exp[ix] += 1.0 / nv
            elif kind == "expval":
                exp = float(np.mean(np.array(vals, dtype=float)))
            else:
                exp = float(np.var(np.array(vals, dtype=float)))
            if np.asarray(exp).shape != g.shape or not np.allclose(g, exp, atol=1e-9):
                viol("tree_statistic_is_not_the_function_of_the_decided_draws", {"mp": kind},
                     {"measurement": mp, "expected": np.round(np.asarray(exp, dtype=float), 8).tolist(),
                      "observed": np.round(g, 8).tolist(),
                      "shots_per_history": {str(list(hh)): c_ for hh, c_ in leaf_counts.items()}})
    # ---------------------------------------------------------------------------------- mode D ----------
    if results is not None and mode == "D":
        shots = case["shots"]
        thin = [o for o in hub.offers if o["kind"] == "binomial_n"]
        counters["decision_points"] = len(hub.offers)
        ps_list = [(k, o[2]["postselect"]) for k, o in enumerate(
            [o for o in case["ops"] if o[0] == "measure"]) if o[2]["postselect"] is not None]
        fill = case["postselect_mode"] == "fill-shots"
        nontrivial = bool(thin)
        kept = shots
        if fill:
            if thin:
                viol("shots_thinned_under_fill_shots", {}, {"offers": [[o["n"], round(o["p"], 6)] for o in thin]})
        else:
            # reference: probability that the k-th postselected measurement gives its value, given that
            # all earlier postselections succeeded
            def cond_prob(upto):
                def ok(h, m):
                    return all(h[k] == v for k, v in ps_list[:m])
                num = sum(b.prob for b in tree.leaves if ok(b.h, upto + 1))
                den = sum(b.prob for b in tree.leaves if ok(b.h, upto))
                return num / den if den > 0 else 0.0

            if len(thin) != len(ps_list) and all(o["n"] > 0 for o in thin):
                viol("postselection_thinning_steps_wrong", {},
                     {"expected_steps": len(ps_list), "observed": [[o["n"], round(o["p"], 6), o["out"]] for o in thin]})
            else:
                for j, o in enumerate(thin):
                    if o["n"] != kept:
                        viol("postselection_thins_the_wrong_number_of_shots", {"step": j},
                             {"shots_still_valid": kept, "offered_n": o["n"],
                              "steps": [[x["n"], round(x["p"], 6), x["out"]] for x in thin]})
                        break
                    rp = cond_prob(j)
                    if abs(o["p"] - rp) > 1e-7:
                        viol("postselection_probability_wrong", {"step": j},
                             {"offered_p": round(o["p"], 8), "reference_p": round(rp, 8)})
                        break
                    kept = o["out"]
        if not violations:
            counters["shots_kept_checked"] = 1
            for mp, got in zip(mps, results):
                if mp[0] in ("counts", "counts_mv") and isinstance(got, dict):
                    tot = sum(int(v) for v in got.values())
                    if tot != kept:
                        viol("returned_shot_total_differs_from_kept_shots", {"mp": mp[0]},
                             {"kept": kept, "returned_total": tot, "postselect_mode": case["postselect_mode"]})
                        break
            sizes = [o["size"] for o in hub.offers if o["kind"] == "choice"]
            if sizes and any(sz != kept for sz in sizes) and kept > 0:
                viol("terminal_samples_drawn_for_the_wrong_number_of_shots", {},
                     {"kept": kept, "draw_sizes": sizes[:6]})
    h = hashlib.sha256(json.dumps([mode, forced, _ENV["qgen"].to_jsonable(res) if res is not None else None,
                                   case["policy"] if hub else None], sort_keys=True, default=str).encode())
    counters["policy:" + case["policy"]] = 1 if hub else 0
    return {"violations": violations, "digest": h.hexdigest()[:24], "nontrivial": bool(nontrivial),
            "counters": counters, "sim_time": 0.0, "case": case,
            "summary": {"mode": mode, "forced_histories": forced[:8], "branches": len(tree.leaves)}}


def shrink_candidates(case):
    from simkit.runner import shrink_list

    for mps in shrink_list(case["mps"], 1):
        yield dict(case, mps=mps)
    ops = case["ops"]
    for i in range(len(ops) - 1, case["n"] - 1, -1):  # the first layer (one gate per wire, in order) stays
        if ops[i][0] == "measure":
            continue  # removing a measurement renumbers the others
        yield dict(case, ops=ops[:i] + ops[i + 1:])
    for i, o in enumerate(ops):
        if o[0] == "measure" and (o[2]["reset"] or o[2]["postselect"] is not None):
            yield dict(case, ops=ops[:i] + [["measure", o[1], {"reset": False, "postselect": None}]] + ops[i + 1:])
        if o[0] == "cond" and o[1][0] != "m":
            ks = sorted(_ENV["branch"].expr_mcms(o[1]))
            yield dict(case, ops=ops[:i] + [["cond", ["m", ks[0]], o[2]]] + ops[i + 1:])
    if case["shots"] and case["shots"] > 1:
        yield dict(case, shots=1)
        yield dict(case, shots=2)
    if case["policy"] != "zeros":
        yield dict(case, policy="zeros")
