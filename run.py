#!/venv/bin/python
"""Entry point for every check.

    run.py <ID> --tier quick|thorough [--seed N] [--runs N] [--wall S] [--workers W]
    run.py <ID> --replay replays/<file>.json
    run.py --selfcheck
    run.py selftest determinism [--checks C65,C31] [--n 200]
    run.py selftest sensitivity [--checks ...]

Exit 0: property held on everything explored (KNOWN-FINDING lines allowed);
exit 1: `VIOLATION property=<id> replay=<path>` printed; exit 2: harness error.
"""
import os
import sys

HERE = os.path.dirname(os.path.abspath(__file__))

# One interpreter configuration for every run: string hashing must not vary between runs.
if os.environ.get("PYTHONHASHSEED") is None:
    os.environ["PYTHONHASHSEED"] = "0"
    os.execv(sys.executable, [sys.executable] + sys.argv)

sys.path.insert(0, HERE)
os.environ.setdefault("OMP_NUM_THREADS", "1")
os.environ.setdefault("OPENBLAS_NUM_THREADS", "1")
os.environ.setdefault("MKL_NUM_THREADS", "1")
os.environ.setdefault("JAX_PLATFORMS", "cpu")
os.environ.setdefault("XLA_FLAGS", "--xla_cpu_multi_thread_eigen=false intra_op_parallelism_threads=1")

import argparse  # noqa: E402
import json  # noqa: E402

# seams that have to be in place before the code under test is imported
from simkit import simpool as _simpool  # noqa: E402

_simpool.patch_blocking_queues()


def main(argv):
    if argv and argv[0] == "--selfcheck":
        from simkit import selfcheck as sc

        return sc.main()
    if argv and argv[0] == "selftest":
        from simkit import selftest

        return selftest.main(argv[1:])
    ap = argparse.ArgumentParser()
    ap.add_argument("check")
    ap.add_argument("--tier", default=os.environ.get("VERIF_TIER", "quick"),
                    choices=["quick", "thorough"])
    ap.add_argument("--seed", type=int, default=int(os.environ.get("VERIF_SEED", "0")))
    ap.add_argument("--runs", type=int)
    ap.add_argument("--wall", type=float)
    ap.add_argument("--workers", type=int)
    ap.add_argument("--replay")
    ap.add_argument("--digests", action="store_true",
                    help="print 'idx digest' for runs [--start, --start+--runs) (determinism self-test)")
    ap.add_argument("--start", type=int, default=0)
    a = ap.parse_args(argv)
    from simkit import runner

    cid = a.check.upper()
    if a.replay:
        return runner.run_replay(cid, a.replay)
    if a.digests:
        from simkit import selftest

        return selftest.print_digests(cid, a.tier, a.seed, a.start, a.runs or 50, a.workers or 1)
    return runner.run_check(cid, a.tier, a.seed, runs=a.runs, wall=a.wall, workers=a.workers)


if __name__ == "__main__":
    sys.exit(main(sys.argv[1:]))
