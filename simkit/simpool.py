"""In-process, simulator-owned stand-ins for the three stdlib worker pools PennyLane uses.

* `SimThreadPool`  ~ `concurrent.futures.ThreadPoolExecutor`
* `SimProcPool`    ~ `concurrent.futures.ProcessPoolExecutor` (arguments/results cross a pickle
                     boundary; a task may "kill" its worker -> `BrokenProcessPool`)
* `SimMPPool`      ~ `multiprocessing.pool.Pool` (chunked `map/starmap/imap*`, `apply*`, pickling)

The two executor classes subclass the real `concurrent.futures.Executor` and override only
`submit`/`shutdown`, so the *real* stdlib `Executor.map` (the code that restores order) runs.
Futures are real `concurrent.futures.Future` objects; a `result()` that would block drives the
simulator's event heap instead, and the stdlib's `wait`/`as_completed` work unchanged because the
waiter's `threading.Event` is replaced by one whose `wait()` drives the heap as well.

Worker model: `W` slots, FIFO task queue, each task (or chunk) occupies a slot from its start event
to its completion event; the completion time is `start + duration`, durations come from the
schedule (explicit list or PRNG, heavy tailed), so completion order is any permutation reachable
with at most `W` tasks in flight.  In `mode="l0"` a task body runs atomically at its start event;
in `mode="l1"` it runs as a `Coro` (real thread) that is descheduled at every simulator-owned yield
point, each slice getting its own virtual duration.
"""
from __future__ import annotations

import collections
import concurrent.futures as cf
import concurrent.futures._base as cf_base
import itertools
import pickle
import threading
from concurrent.futures.process import BrokenProcessPool

from .baton import Coro
from .core import HarnessError, Sim, SimDeadlock

# ------------------------------------------------------------------------------------------------
# scheduling context
# ------------------------------------------------------------------------------------------------


class SimWorkerDeath(BaseException):
    """Raised by a task body to model the worker process dying (process pools only)."""


class PoolSim:
    """Per-run scheduling context shared by every simulated pool."""

    def __init__(self, sim: Sim, sched_rng=None, durations=None, mode="l0", max_slices=64):
        self.sim = sim
        self.sched_rng = sched_rng
        self.durations = list(durations) if durations is not None else None
        self.drawn: list[float] = []  # every duration handed out, in request order
        self.mode = mode
        self.max_slices = max_slices
        self.task_seq = 0
        self.start_order: list[int] = []
        self.completion_order: list[int] = []
        self.in_flight = 0
        self.max_in_flight = 0
        self.pools_created = 0
        self.chunks = 0
        self.worker_deaths = 0
        self.slices = 0
        self.slice_log: list = []  # (task, slice#) in execution order (l1)
        self.timeouts_armed = 0  # deadlines set by the code under test, on the virtual clock
        self.timeouts_expired = 0
        self.coros: list[Coro] = []

    def next_duration(self) -> float:
        i = len(self.drawn)
        if self.durations is not None:
            d = float(self.durations[i]) if i < len(self.durations) else 1.0
        elif self.sched_rng is not None:
            r = self.sched_rng.random()
            # heavy tail: mostly ~1, sometimes 10x/100x longer, sometimes almost instant
            if r < 0.15:
                d = round(self.sched_rng.random() * 0.1, 4)
            elif r < 0.80:
                d = round(0.5 + self.sched_rng.random(), 4)
            elif r < 0.95:
                d = round(5 + 10 * self.sched_rng.random(), 4)
            else:
                d = round(50 + 100 * self.sched_rng.random(), 4)
        else:
            d = 1.0
        self.drawn.append(d)
        return d

    def inversions(self) -> int:
        """Number of task pairs that completed in the opposite order to their start order."""
        pos = {t: i for i, t in enumerate(self.completion_order)}
        order = [pos[t] for t in self.start_order if t in pos]
        inv = 0
        for i in range(len(order)):
            for j in range(i + 1, len(order)):
                if order[i] > order[j]:
                    inv += 1
        return inv

    def cleanup(self):
        for c in self.coros:
            c.kill()
        self.coros.clear()


_current: PoolSim | None = None


def install(ps: PoolSim | None):
    global _current
    _current = ps


def current_or_none():
    return _current


def current() -> PoolSim:
    if _current is None:
        raise HarnessError("no PoolSim installed")
    return _current


# ------------------------------------------------------------------------------------------------
# stdlib seam: make wait()/as_completed() drive the simulator instead of blocking
# ------------------------------------------------------------------------------------------------


def _timed_run(sim: Sim, pred, timeout, what: str) -> bool:
    """Drive the heap until `pred()` holds or `timeout` units of VIRTUAL time have passed; returns pred().
    Every deadline the code under test sets (wait/as_completed/result/AsyncResult timeouts) is measured on
    the simulator's clock: a 0.25 s poll interval expires while tasks of 1 virtual unit are in flight."""
    if timeout is None:
        sim.run_until(pred, what)
        return True
    fired = [False]
    sim.after(max(0.0, float(timeout)), lambda: fired.__setitem__(0, True), "timeout")
    st = current_or_none()
    if st is not None:
        st.timeouts_armed += 1
    sim.run_until(lambda: pred() or fired[0], what)
    ok = bool(pred())
    if not ok and st is not None:
        st.timeouts_expired += 1
    return ok


class _SimClock:
    """Stand-in for the `time` module as seen by concurrent.futures._base (as_completed and Executor.map
    compute their deadlines with time.monotonic()): virtual time while a simulation is installed."""

    def __getattr__(self, name):
        import time as _t

        return getattr(_t, name)

    @staticmethod
    def monotonic():
        import time as _t

        return _current.sim.now if _current is not None else _t.monotonic()


# ------------------------------------------------------------------------------------------------
# stdlib seam: blocking queue reads.  A completion queue filled by done-callbacks is a natural way to
# gather results; a get() on an empty queue would block the only running thread for ever, because
# callbacks fire only while the event heap is driven.  While a simulation is installed, get() drives it.
# ------------------------------------------------------------------------------------------------
import _queue  # noqa: E402
import queue as _queue_mod  # noqa: E402


def _queue_wait(nonempty, block, timeout, what):
    """True if the caller may now read; raises queue.Empty after a virtual-time timeout."""
    ps = _current
    if ps is None or not block or nonempty():
        return
    if not _timed_run(ps.sim, nonempty, timeout, what):
        raise _queue_mod.Empty


class SimAwareSimpleQueue(_queue.SimpleQueue):
    def get(self, block=True, timeout=None):
        _queue_wait(lambda: not self.empty(), block, timeout, "SimpleQueue.get")
        return super().get(block, timeout)


_orig_queue_get = _queue_mod.Queue.get


def _sim_queue_get(self, block=True, timeout=None):
    _queue_wait(lambda: self._qsize() > 0, block, timeout, "Queue.get")
    return _orig_queue_get(self, block, timeout)


def patch_blocking_queues():
    """Idempotent; must run before the code under test is imported (`from queue import SimpleQueue`)."""
    _queue_mod.SimpleQueue = SimAwareSimpleQueue
    _queue_mod.Queue.get = _sim_queue_get


class _SimEvent:
    """Drop-in for the waiter's threading.Event: wait() drives the event heap."""

    def __init__(self, sim: Sim):
        self._sim = sim
        self._flag = False

    def is_set(self):
        return self._flag

    def set(self):
        self._flag = True

    def clear(self):
        self._flag = False

    def wait(self, timeout=None):
        return _timed_run(self._sim, lambda: self._flag, timeout, "futures waiter")


_orig_create_waiters = cf_base._create_and_install_waiters


def _sim_create_and_install_waiters(fs, return_when):
    waiter = _orig_create_waiters(fs, return_when)
    sims = {f._ps.sim for f in fs if isinstance(f, SimFuture)}
    if sims:
        if len(sims) > 1:
            raise HarnessError("futures of different simulations mixed")
        ev = _SimEvent(next(iter(sims)))
        if waiter.event.is_set():
            ev.set()
        waiter.event = ev
    return waiter


def patch_stdlib():
    """Idempotent; touches only the waiter factory looked up at call time by wait/as_completed."""
    cf_base._create_and_install_waiters = _sim_create_and_install_waiters
    if not isinstance(cf_base.time, _SimClock):
        cf_base.time = _SimClock()


class SimFuture(cf.Future):
    """A real Future whose blocking accessors drive the simulation."""

    def __init__(self, ps: PoolSim, tid: int):
        super().__init__()
        self._ps = ps
        self._tid = tid

    def __hash__(self):  # deterministic set order inside stdlib wait/as_completed
        return self._tid

    def __eq__(self, other):
        return self is other

    def _drive(self, timeout=None):
        if not self.done():
            if not _timed_run(self._ps.sim, self.done, timeout, f"future of task {self._tid}"):
                raise cf.TimeoutError()

    def result(self, timeout=None):
        self._drive(timeout)
        return super().result(0)

    def exception(self, timeout=None):
        self._drive(timeout)
        return super().exception(0)


# ------------------------------------------------------------------------------------------------
# worker slots
# ------------------------------------------------------------------------------------------------


class _Task:
    __slots__ = ("tid", "body", "on_done", "outcome", "cancelled")

    def __init__(self, tid, body, on_done):
        self.tid = tid
        self.body = body  # () -> value ; may raise
        self.on_done = on_done  # (ok: bool, value_or_exc) -> None
        self.outcome = None
        self.cancelled = None  # optional () -> bool, checked when the task is dequeued


class _Workers:
    def __init__(self, ps: PoolSim, n: int, label: str):
        if not isinstance(n, int) or n <= 0:
            raise ValueError("max_workers must be greater than 0")
        self.ps = ps
        self.n = n
        self.free = n
        self.queue: collections.deque[_Task] = collections.deque()
        self.label = label
        self.pending = 0  # queued + running
        self.dead = False

    def enqueue(self, body, on_done, cancelled=None) -> int:
        ps = self.ps
        ps.task_seq += 1
        t = _Task(ps.task_seq, body, on_done)
        t.cancelled = cancelled
        self.queue.append(t)
        self.pending += 1
        self._dispatch()
        return t.tid

    def _dispatch(self):
        while self.free > 0 and self.queue:
            t = self.queue.popleft()
            if t.cancelled is not None and t.cancelled():
                self.pending -= 1
                continue
            self.free -= 1
            self.ps.sim.after(0.0, lambda t=t: self._start(t), ("start", t.tid))

    def _start(self, t: _Task):
        ps = self.ps
        ps.in_flight += 1
        ps.max_in_flight = max(ps.max_in_flight, ps.in_flight)
        ps.start_order.append(t.tid)
        ps.sim.trace.log("start", self.label, t.tid)
        if ps.mode == "l0":
            t.outcome = _run_body(t.body)
            ps.sim.after(ps.next_duration(), lambda: self._complete(t), ("done", t.tid))
        else:
            co = Coro(lambda: _run_body(t.body), name=f"task{t.tid}")
            ps.coros.append(co)
            self._slice(t, co, 0)

    def _slice(self, t: _Task, co: Coro, k: int):
        ps = self.ps
        ps.slices += 1
        ps.slice_log.append((t.tid, k))
        co.resume()
        if co.done:
            if co.exc is not None:  # _run_body never raises; this is a harness problem
                raise HarnessError(f"task coroutine crashed: {co.exc!r}") from co.exc
            t.outcome = co.result
            ps.sim.after(ps.next_duration(), lambda: self._complete(t), ("done", t.tid))
        else:
            if k + 1 >= ps.max_slices:
                raise HarnessError("slice cap exceeded")
            ps.sim.after(ps.next_duration(), lambda: self._slice(t, co, k + 1), ("slice", t.tid))

    def _complete(self, t: _Task):
        ps = self.ps
        ps.in_flight -= 1
        self.free += 1
        self.pending -= 1
        ps.completion_order.append(t.tid)
        ps.sim.trace.log("done", self.label, t.tid)
        ok, val = t.outcome
        t.on_done(ok, val)
        if not self.dead:
            self._dispatch()

    def drain(self):
        self.ps.sim.run_until(lambda: self.pending == 0, f"{self.label} drain")


def _run_body(body):
    try:
        return (True, body())
    except SimWorkerDeath as e:
        return ("death", e)
    except BaseException as e:  # noqa: BLE001 - delivered through the future, like a real worker
        return (False, e)


# ------------------------------------------------------------------------------------------------
# concurrent.futures executors
# ------------------------------------------------------------------------------------------------


class _SimExecutorBase(cf.Executor):
    _label = "pool"
    _pickles = False

    def __init__(self, max_workers=None, *args, **kwargs):
        ps = current()
        ps.pools_created += 1
        if max_workers is None:
            max_workers = 4
        self._ps = ps
        self._workers = _Workers(ps, max_workers, f"{self._label}{ps.pools_created}")
        self._max_workers = max_workers
        self._shutdown = False
        self._broken = False
        self._futures: list[SimFuture] = []

    def submit(self, fn, /, *args, **kwargs):
        if self._broken:
            raise BrokenProcessPool(
                "A child process terminated abruptly, the process pool is not usable anymore"
            )
        if self._shutdown:
            raise RuntimeError("cannot schedule new futures after shutdown")
        ps = self._ps
        fut = SimFuture(ps, ps.task_seq + 1)
        if self._pickles:
            try:
                blob = pickle.dumps((fn, args, kwargs))
            except BaseException as e:  # noqa: BLE001 - real pool sets it on the future
                ps.task_seq += 1
                fut.set_running_or_notify_cancel()
                fut.set_exception(e)
                return fut

            def body():
                f, a, k = pickle.loads(blob)
                return pickle.loads(pickle.dumps(f(*a, **k)))

        else:

            def body():
                return fn(*args, **kwargs)

        def on_done(ok, val):
            if fut.done():  # pool broke while this task was in flight
                return
            if ok is True:
                fut.set_result(val)
            elif ok == "death":
                self._break(fut)
            else:
                fut.set_exception(val)

        def cancelled():
            return not fut.set_running_or_notify_cancel()

        self._futures.append(fut)
        self._workers.enqueue(body, on_done, cancelled)
        return fut

    def _break(self, fut):
        self._ps.worker_deaths += 1
        self._broken = True
        self._workers.dead = True
        err = BrokenProcessPool(
            "A process in the process pool was terminated abruptly while the future was "
            "running or pending."
        )
        for f in self._futures:
            if not f.done():
                f.set_exception(err)
        self._workers.queue.clear()

    def shutdown(self, wait=True, *, cancel_futures=False):
        self._shutdown = True
        if cancel_futures:
            for t in list(self._workers.queue):
                pass  # cancellation is decided when dequeued via fut.cancel()
            for f in self._futures:
                f.cancel()
        if wait and not self._broken:
            self._ps.sim.run_until(
                lambda: all(f.done() for f in self._futures), f"{self._workers.label} shutdown"
            )


class SimThreadPool(_SimExecutorBase):
    _label = "tp"
    _pickles = False

    def __init__(self, max_workers=None, thread_name_prefix="", initializer=None, initargs=()):
        super().__init__(max_workers)


def _process_chunk(fn, chunk):
    return [fn(*args) for args in chunk]


def _chain_from_iterable_of_lists(iterable):
    for element in iterable:
        element.reverse()
        while element:
            yield element.pop()


class SimProcPool(_SimExecutorBase):
    _label = "pp"
    _pickles = True

    def __init__(self, max_workers=None, mp_context=None, initializer=None, initargs=(), **kw):
        super().__init__(max_workers)

    def map(self, fn, *iterables, timeout=None, chunksize=1):
        # same override as the real ProcessPoolExecutor.map
        if chunksize < 1:
            raise ValueError("chunksize must be >= 1.")
        from functools import partial

        results = super().map(
            partial(_process_chunk, fn),
            itertools.batched(zip(*iterables), chunksize),
            timeout=timeout,
        )
        return _chain_from_iterable_of_lists(results)


# ------------------------------------------------------------------------------------------------
# multiprocessing.pool.Pool
# ------------------------------------------------------------------------------------------------


def _mapstar(args):
    return list(map(*args))


def _starmapstar(args):
    return list(itertools.starmap(args[0], args[1]))


class _SimAsyncResult:
    def __init__(self, pool):
        self._pool = pool
        self._done = False
        self._success = None
        self._value = None

    def ready(self):
        return self._done

    def successful(self):
        if not self._done:
            raise ValueError(f"{self!r} not ready")
        return self._success

    def wait(self, timeout=None):
        _timed_run(self._pool._ps.sim, lambda: self._done, timeout, "AsyncResult")

    def get(self, timeout=None):
        self.wait(timeout)
        if not self._done:
            import multiprocessing

            raise multiprocessing.TimeoutError
        if self._success:
            return self._value
        raise self._value


class _SimApplyResult(_SimAsyncResult):
    def _set(self, i, obj):
        self._success, self._value = obj
        self._done = True


class _SimMapResult(_SimAsyncResult):
    def __init__(self, pool, chunksize, length):
        super().__init__(pool)
        self._success = True
        self._value = [None] * length
        self._chunksize = chunksize
        if chunksize <= 0:
            self._number_left = 0
            self._done = True
        else:
            self._number_left = length // chunksize + bool(length % chunksize)

    def _set(self, i, success_result):
        self._number_left -= 1
        success, result = success_result
        if success and self._success:
            self._value[i * self._chunksize : (i + 1) * self._chunksize] = result
        elif not success and self._success:
            self._success = False
            self._value = result
        if self._number_left == 0:
            self._done = True


class SimMPPool:
    """multiprocessing.pool.Pool look-alike (public surface only)."""

    def __init__(self, processes=None, initializer=None, initargs=(), maxtasksperchild=None):
        ps = current()
        ps.pools_created += 1
        if processes is None:
            processes = 4
        if processes < 1:
            raise ValueError("Number of processes must be at least 1")
        self._ps = ps
        self._processes = processes
        self._workers = _Workers(ps, processes, f"mp{ps.pools_created}")
        self._state = "RUN"

    def _check_running(self):
        if self._state != "RUN":
            raise ValueError("Pool not running")

    # -- task plumbing -------------------------------------------------------------------------
    def _submit(self, func, args, kwds, result, idx):
        try:
            blob = pickle.dumps((func, args, kwds))
        except BaseException as e:  # noqa: BLE001 - as Pool._handle_tasks does
            self._ps.task_seq += 1
            result._set(idx, (False, e))
            return

        def body():
            f, a, k = pickle.loads(blob)
            return pickle.loads(pickle.dumps(f(*a, **k)))

        def on_done(ok, val):
            if ok == "death":
                raise HarnessError("worker death is not modelled for multiprocessing.Pool")
            result._set(idx, (ok is True, val))

        self._workers.enqueue(body, on_done)

    def apply_async(self, func, args=(), kwds={}, callback=None, error_callback=None):
        self._check_running()
        res = _SimApplyResult(self)
        self._submit(func, tuple(args), dict(kwds), res, 0)
        return res

    def apply(self, func, args=(), kwds={}):
        return self.apply_async(func, args, kwds).get()

    def _map_async(self, func, iterable, mapper, chunksize=None):
        self._check_running()
        if not hasattr(iterable, "__len__"):
            iterable = list(iterable)
        if chunksize is None:
            chunksize, extra = divmod(len(iterable), self._processes * 4)
            if extra:
                chunksize += 1
        if len(iterable) == 0:
            chunksize = 0
        res = _SimMapResult(self, chunksize, len(iterable))
        if chunksize > 0:
            it = iter(iterable)
            i = 0
            while True:
                chunk = tuple(itertools.islice(it, chunksize))
                if not chunk:
                    break
                self._ps.chunks += 1
                self._submit(mapper, ((func, chunk),), {}, res, i)
                i += 1
        return res

    def map(self, func, iterable, chunksize=None):
        return self._map_async(func, iterable, _mapstar, chunksize).get()

    def starmap(self, func, iterable, chunksize=None):
        return self._map_async(func, iterable, _starmapstar, chunksize).get()

    def map_async(self, func, iterable, chunksize=None, callback=None, error_callback=None):
        return self._map_async(func, iterable, _mapstar, chunksize)

    def starmap_async(self, func, iterable, chunksize=None, callback=None, error_callback=None):
        return self._map_async(func, iterable, _starmapstar, chunksize)

    def _imap(self, func, iterable, chunksize, ordered):
        self._check_running()
        items = list(iterable)
        if chunksize < 1:
            raise ValueError(f"Chunksize must be 1+, not {chunksize}")
        chunks = [items[i : i + chunksize] for i in range(0, len(items), chunksize)]
        slots: dict[int, tuple] = {}
        arrival: list[int] = []

        class _Slot:
            def __init__(self, i):
                self.i = i

            def _set(self, idx, obj):
                slots[self.i] = obj
                arrival.append(self.i)

        for i, ch in enumerate(chunks):
            self._ps.chunks += 1
            self._submit(_mapstar, ((func, tuple(ch)),), {}, _Slot(i), 0)
        sim = self._ps.sim

        def gen():
            for k in range(len(chunks)):
                if ordered:
                    sim.run_until(lambda: k in slots, "imap")
                    ok, val = slots[k]
                else:
                    sim.run_until(lambda: len(arrival) > k, "imap_unordered")
                    ok, val = slots[arrival[k]]
                if not ok:
                    raise val
                yield from val

        return gen()

    def imap(self, func, iterable, chunksize=1):
        return self._imap(func, iterable, chunksize, True)

    def imap_unordered(self, func, iterable, chunksize=1):
        return self._imap(func, iterable, chunksize, False)

    # -- lifecycle -----------------------------------------------------------------------------
    def close(self):
        if self._state == "RUN":
            self._state = "CLOSE"

    def terminate(self):
        self._state = "TERMINATE"
        self._workers.queue.clear()

    def join(self):
        if self._state == "RUN":
            raise ValueError("Pool is still running")
        if self._state == "CLOSE":
            self._workers.drain()

    def __enter__(self):
        self._check_running()
        return self

    def __exit__(self, exc_type, exc_val, exc_tb):
        self.terminate()


def thread_pool_factory():
    return SimThreadPool


def proc_pool_factory():
    return SimProcPool


def mp_pool_factory():
    return SimMPPool


__all__ = [
    "PoolSim",
    "SimThreadPool",
    "SimProcPool",
    "SimMPPool",
    "SimWorkerDeath",
    "SimDeadlock",
    "install",
    "current",
    "patch_stdlib",
]
