"""MANIFEST.setup_cmd: nothing to build; verify the framework is importable and its files are sane."""
import json
import os
import sys

VERIF = os.path.dirname(os.path.dirname(os.path.abspath(__file__)))


def main() -> int:
    import numpy  # noqa: F401

    from simkit import baton, core, runner, simpool  # noqa: F401

    with open(os.path.join(VERIF, "MANIFEST.json")) as f:
        man = json.load(f)
    with open(os.path.join(VERIF, "known_findings.json")) as f:
        kf = json.load(f)
    claimed = {c["property_id"] for c in man["checks"]}
    for k in kf["findings"]:
        assert {"id", "property", "status", "what", "match"} <= set(k), k
        assert k["property"] in claimed, f"finding {k['id']} for unclaimed property"
    for line in kf.get("fixed", []):
        assert line.startswith("fixed: property="), line
    for c in man["checks"]:
        mod = runner.load_check(c["property_id"])
        for attr in ("ID", "LEVEL", "TIERS", "RULE", "setup", "gen_case", "run_case"):
            assert hasattr(mod, attr), (c["property_id"], attr)
    try:
        import jsonschema

        schema = "/root/.vp/MANIFEST.schema.json"
        if os.path.exists(schema):
            jsonschema.validate(man, json.load(open(schema)))
    except ImportError:
        pass
    import pennylane

    print(f"selfcheck ok: {len(claimed)} checks, pennylane {pennylane.__version__} from {os.path.dirname(pennylane.__file__)}")
    return 0


if __name__ == "__main__":
    sys.exit(main())
