"""Baton passing over real threads: exactly one thread runs at a time, the driver decides who.

A `Coro` wraps a real `threading.Thread` (so thread-local state and `contextvars` behave exactly
as in production) but the thread only ever runs while the driver is parked inside `resume()`.
The coroutine gives control back at *yield points*:

* explicit `yield_point(tag)` calls made by simulator-owned seams (RNG draws, cache accesses,
  task boundaries) -- a no-op when called from a thread that is not a `Coro`;
* optionally, `sys.settrace` line events in an allow-list of source files (`trace_files`), at the
  line-event indices listed in `preempt_at` (bounded pre-emption, PCT style).

Which coroutine is resumed next is *never* decided here; the driver does that from its PRNG.
"""
from __future__ import annotations

import contextvars
import sys
import threading

_local = threading.local()

# Real OS threads are expensive to create in this sandbox (0.35 ms alone, ~3.5 ms with 16 busy
# processes), so coroutine bodies run on pooled real threads.  Every body runs inside a fresh, empty
# `contextvars.Context` -- exactly what a newly started thread gets in CPython 3.12 -- so ContextVar
# semantics are those of a new thread; `threading.local` storage is the only thing that survives
# from one body to the next on the same pooled thread.
_idle: list = []


class _PoolThread:
    def __init__(self):
        self.sem = threading.Semaphore(0)
        self.job = None
        self.thread = threading.Thread(target=self._loop, name="sim-pool", daemon=True)
        self.thread.start()

    def _loop(self):
        while True:
            self.sem.acquire()
            job, self.job = self.job, None
            try:
                contextvars.Context().run(job)
            finally:
                _idle.append(self)

    def submit(self, job):
        self.job = job
        self.sem.release()


def _forget_pool_after_fork():
    # a forked child has only the forking thread: the pooled threads do not exist there
    _idle.clear()


import os as _os  # noqa: E402

_os.register_at_fork(after_in_child=_forget_pool_after_fork)


def _run_on_pool(job):
    w = _idle.pop() if _idle else _PoolThread()
    w.submit(job)


class CoroKilled(BaseException):
    """Raised inside a parked coroutine thread to unwind it when a run is abandoned."""


class Coro:
    def __init__(self, fn, name: str, trace_files=(), preempt_at=(), line_log=None,
                 preempt_raw_at=(), preempt_guard=None):
        self.fn = fn
        self.name = name
        self.done = False
        self.result = None
        self.exc: BaseException | None = None
        self.started = False
        self.last_tag = None
        self._resume = threading.Semaphore(0)
        self._yielded = threading.Semaphore(0)
        self._kill = False
        self.trace_files = tuple(trace_files)
        # `preempt_at` indexes the *collapsed* line-event stream (an event counts only if its line
        # is not among the last few distinct lines seen, so a 500-iteration copy loop counts once);
        # `preempt_raw_at` indexes the raw stream (lands inside such loops).
        self.preempt_at = set(preempt_at)
        self.preempt_raw_at = set(preempt_raw_at)
        self.line_events = 0
        self.raw_events = 0
        self._recent: list = []
        self._pending_hit = False
        # optional () -> bool: pre-emption is deferred to the next line event at which it holds
        self.preempt_guard = preempt_guard
        self.line_log = line_log

    # ---- driver side -------------------------------------------------------------------------
    def resume(self):
        """Run the coroutine until its next yield point (or its end).  Called by the driver."""
        if self.done:
            raise RuntimeError("resume of finished coroutine")
        if not self.started:
            self.started = True
            _run_on_pool(self._main)
        else:
            self._resume.release()
        self._yielded.acquire()

    def kill(self):
        if self.started and not self.done:
            self._kill = True
            self._resume.release()
            self._yielded.acquire()

    # ---- coroutine side ----------------------------------------------------------------------
    def _main(self):
        _local.coro = self
        try:
            if self.trace_files:
                sys.settrace(self._tracer)
            try:
                self.result = self.fn()
            finally:
                sys.settrace(None)
        except CoroKilled:
            pass
        except BaseException as e:  # noqa: BLE001 - delivered to the driver
            self.exc = e
        finally:
            _local.coro = None
            self.done = True
            self._yielded.release()

    def _yield(self, tag):
        self.last_tag = tag
        self._yielded.release()
        self._resume.acquire()
        if self._kill:
            raise CoroKilled()

    def _tracer(self, frame, event, arg):
        fn = frame.f_code.co_filename
        for suffix in self.trace_files:
            if fn.endswith(suffix):
                return self._line_tracer
        return None

    def _line_tracer(self, frame, event, arg):
        if event == "line":
            self.raw_events += 1
            hit = self.raw_events in self.preempt_raw_at
            ln = frame.f_lineno
            rec = self._recent
            if ln not in rec:
                rec.append(ln)
                if len(rec) > 3:
                    del rec[0]
                self.line_events += 1
                hit = hit or self.line_events in self.preempt_at
            if self._pending_hit:
                hit = True
            if hit and self.preempt_guard is not None and not self.preempt_guard():
                self._pending_hit = True
                hit = False
            if hit:
                self._pending_hit = False
                tag = ("line", frame.f_code.co_filename.rsplit("/", 1)[-1], frame.f_lineno)
                if self.line_log is not None:
                    self.line_log.append((self.name,) + tag[1:])
                self._yield(tag)
        return self._line_tracer


def current() -> Coro | None:
    return getattr(_local, "coro", None)


def yield_point(tag=None):
    """Give the baton back to the driver if (and only if) running inside a `Coro`."""
    c = getattr(_local, "coro", None)
    if c is not None and not c.done:
        c._yield(tag)
