"""Simulator-owned file system for HDF5: path -> bytes, with file objects h5py's `fileobj` driver
can run on (read/readinto, write, seek, tell, truncate, flush) and a fault plan that fails the k-th
low-level call of the current operation with ENOSPC / EIO.

`install()` replaces `h5py.File` by a *subclass* of the real class (PennyLane does
`isinstance(bind, h5py.File)`), which maps string / Path names into the simulated file system and
applies the documented mode semantics (r, r+, w, w-/x, a) itself; everything else (the `core`
driver used for in-memory groups, file-like objects) is passed through unchanged.
"""
from __future__ import annotations

import errno
import io
import os


class SimFS:
    def __init__(self):
        self.files: dict[str, bytearray] = {}
        self.open_files: list = []
        self.calls = {"read": 0, "write": 0, "truncate": 0, "flush": 0, "seek": 0}
        self.op_calls = 0  # low-level read/write/truncate/flush calls within the current operation
        self.fault_at = None  # (call index within operation, errno, kinds)
        self.kind_log = None  # when a list: kinds of the low-level calls of the current operation (dry runs)
        self.faults_fired: list = []
        self.bytes_written = 0

    def begin_op(self, fault_at=None):
        self.op_calls = 0
        self.fault_at = fault_at

    def _tick(self, kind, path):
        self.calls[kind] += 1
        if kind == "seek":
            return
        self.op_calls += 1
        if self.kind_log is not None:
            self.kind_log.append(kind)
        fa = self.fault_at
        if fa is not None and self.op_calls >= fa[0] and kind in fa[2]:  # first matching call at or after the armed index
            self.fault_at = None
            self.faults_fired.append((kind, fa[1], path))
            raise OSError(fa[1], os.strerror(fa[1]), path)

    def exists(self, path):
        return path in self.files

    def open(self, path, create=False, truncate=False):
        if create and path not in self.files:
            self.files[path] = bytearray()
        if truncate:
            self.files[path] = bytearray()
        f = SimFile(self, path)
        self.open_files.append(f)
        return f


class SimFile(io.RawIOBase):
    def __init__(self, fs: SimFS, path: str):
        super().__init__()
        self.fs = fs
        self.path = path
        self.pos = 0

    @property
    def buf(self) -> bytearray:
        return self.fs.files[self.path]

    def readable(self):
        return True

    def writable(self):
        return True

    def seekable(self):
        return True

    def readinto(self, b):
        self.fs._tick("read", self.path)
        data = self.buf[self.pos:self.pos + len(b)]
        n = len(data)
        b[:n] = data
        self.pos += n
        return n

    def write(self, b):
        self.fs._tick("write", self.path)
        b = bytes(b)
        end = self.pos + len(b)
        buf = self.buf
        if end > len(buf):
            buf.extend(b"\0" * (end - len(buf)))
        buf[self.pos:end] = b
        self.pos = end
        self.fs.bytes_written += len(b)
        return len(b)

    def seek(self, offset, whence=io.SEEK_SET):
        self.fs._tick("seek", self.path)
        if whence == io.SEEK_SET:
            self.pos = offset
        elif whence == io.SEEK_CUR:
            self.pos += offset
        else:
            self.pos = len(self.buf) + offset
        return self.pos

    def tell(self):
        return self.pos

    def truncate(self, size=None):
        self.fs._tick("truncate", self.path)
        size = self.pos if size is None else size
        buf = self.buf
        if size < len(buf):
            del buf[size:]
        else:
            buf.extend(b"\0" * (size - len(buf)))
        return size

    def flush(self):
        if self.closed:
            return
        self.fs._tick("flush", self.path)


_state = {"fs": None, "orig": None, "cls": None}


def current() -> SimFS | None:
    return _state["fs"]


def use(fs: SimFS | None):
    _state["fs"] = fs


def install():
    """Idempotent: h5py.File becomes a subclass that resolves str/Path names inside the SimFS."""
    import h5py

    if _state["cls"] is not None:
        return _state["cls"]
    orig = h5py.File

    class SimH5File(orig):
        def __init__(self, name, mode="r", driver=None, **kwds):
            fs = _state["fs"]
            if fs is None or driver is not None or not isinstance(name, (str, os.PathLike)):
                super().__init__(name, mode, driver=driver, **kwds)
                return
            path = os.fspath(name)
            exists = fs.exists(path)
            if mode == "r":
                if not exists:
                    raise FileNotFoundError(errno.ENOENT, "Unable to synchronously open file "
                                            "(unable to open file: no such file)", path)
                super().__init__(fs.open(path), "r", **kwds)
            elif mode == "r+":
                if not exists:
                    raise FileNotFoundError(errno.ENOENT, "Unable to synchronously open file", path)
                super().__init__(fs.open(path), "r+", **kwds)
            elif mode in ("w-", "x"):
                if exists:
                    raise FileExistsError(errno.EEXIST, "Unable to synchronously create file "
                                          "(unable to open file: file exists)", path)
                super().__init__(fs.open(path, create=True), "w", **kwds)
            elif mode == "w":
                super().__init__(fs.open(path, create=True, truncate=True), "w", **kwds)
            elif mode == "a":
                if exists and len(fs.files[path]):
                    super().__init__(fs.open(path), "r+", **kwds)
                else:
                    super().__init__(fs.open(path, create=True, truncate=True), "w", **kwds)
            else:
                raise ValueError("Invalid mode; must be one of r, r+, w, w-, x, a")

    SimH5File.__name__ = "File"
    SimH5File.__qualname__ = "File"
    _state["orig"] = orig
    _state["cls"] = SimH5File
    h5py.File = SimH5File
    return SimH5File
