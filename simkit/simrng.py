"""Simulator-owned numpy Generator: every draw is a recorded event, a yield point and -- in scripted
mode -- a decision taken by the simulator instead of by the bit generator.

`SimGenerator` subclasses `numpy.random.Generator`, so `np.random.default_rng(gen)` returns it
unchanged and every PennyLane code path that accepts a Generator accepts it.  Its `__module__` is
set to numpy's own because `qp.math.random.default_rng` (used by default.mixed) dispatches through
autoray on the module name of its argument's type.

`hub.on_draw(gen, method, args, kwargs)` is called before every draw and returns either `PASS`
(delegate to the real bit generator -- transparent mode) or the value to return (scripted mode).
"""
from __future__ import annotations

import numpy as np

from .baton import yield_point

PASS = object()

_METHODS = ("choice", "binomial", "random", "integers", "multinomial", "permutation", "shuffle",
            "normal", "uniform", "standard_normal", "bytes", "permuted", "exponential", "poisson")


class Hub:
    """Default hub: transparent, counts draws, yields the baton at every draw."""

    def __init__(self, trace=None, yield_at_draw=True):
        self.trace = trace
        self.draws = 0
        self.generators = 0
        self.unseeded = 0
        self.log: list = []
        self.yield_at_draw = yield_at_draw

    def new_generator(self, gen, seed_desc):
        self.generators += 1
        gen._label = self.generators
        if seed_desc == "None":
            self.unseeded += 1

    def on_draw(self, gen, method, args, kwargs):
        self.draws += 1
        if self.yield_at_draw:
            yield_point(("rng", method))
        return PASS


class SimGenerator(np.random.Generator):
    __module__ = "numpy.random._generator"

    def __init__(self, bit_generator, hub: Hub | None = None):
        super().__init__(bit_generator)
        self._hub = hub
        self._label = 0


def _wrap(name):
    base = getattr(np.random.Generator, name)

    def method(self, *args, **kwargs):
        hub = self._hub
        if hub is not None:
            r = hub.on_draw(self, name, args, kwargs)
            if r is not PASS:
                return r
        return base(self, *args, **kwargs)

    method.__name__ = name
    method.__qualname__ = f"SimGenerator.{name}"
    return method


for _m in _METHODS:
    setattr(SimGenerator, _m, _wrap(_m))


def _spawn(self, n_children):
    """Children stay under the simulator's ownership (numpy's own spawn would hand out plain
    Generators whose draws are neither recorded nor yield points)."""
    kids = [SimGenerator(bg, self._hub) for bg in self.bit_generator.spawn(n_children)]
    if self._hub is not None:
        for k in kids:
            self._hub.new_generator(k, "spawned")
    return kids


SimGenerator.spawn = _spawn

_real_default_rng = np.random.default_rng
_hub_ref: list = [None]


def sim_default_rng(seed=None):
    """Same contract as numpy.random.default_rng, but builds SimGenerators bound to the current hub."""
    hub = _hub_ref[0]
    if hub is None:
        return _real_default_rng(seed)
    if isinstance(seed, np.random.Generator):
        return seed
    if isinstance(seed, np.random.BitGenerator):
        g = SimGenerator(seed, hub)
        hub.new_generator(g, "bitgen")
        return g
    g = SimGenerator(np.random.PCG64(seed), hub)
    hub.new_generator(g, "None" if seed is None else "seeded")
    return g


def install(hub: Hub | None):
    """Route every default_rng() made from now on to `hub` (None = real behaviour)."""
    _hub_ref[0] = hub


def patch_numpy(extra_modules=()):
    """Idempotent.  Replace the `default_rng` factory at the places PennyLane looks it up."""
    np.random.default_rng = sim_default_rng
    for mod in extra_modules:
        if getattr(mod, "default_rng", None) is not None:
            mod.default_rng = sim_default_rng


class ScriptHub(Hub):
    """Scripted mode for categorical draws: `choice(a, size, p=...)` *offers* a distribution and the
    simulator *decides* the outcome.  Every offer is recorded as (p, size, returned indices).

    policy: "sample" (inverse-CDF with the simulator's own PRNG), "mode" (always the most likely
    state), "rarest" (always the least likely state of the support), "alternate" (cycle through the
    support), "extremes" (alternate most / least likely).
    """

    def __init__(self, rng, policy="sample", yield_at_draw=False):
        super().__init__(yield_at_draw=yield_at_draw)
        self.rng = rng
        self.policy = policy
        self.offers: list = []  # dicts: p (np.ndarray), size (int), idx (np.ndarray), via

    def decide(self, p, size):
        p = np.asarray(p, dtype=float)
        support = np.nonzero(p > 1e-12)[0]
        if len(support) == 0:
            support = np.arange(len(p))
        pol = self.policy
        if pol == "sample":
            cdf = np.cumsum(p[support])
            cdf = cdf / cdf[-1]
            u = np.array([self.rng.random() for _ in range(size)])
            return support[np.minimum(np.searchsorted(cdf, u, side="right"), len(support) - 1)]
        order = support[np.argsort(-p[support], kind="stable")]
        if pol == "mode":
            return np.full(size, order[0])
        if pol == "rarest":
            return np.full(size, order[-1])
        if pol == "alternate":
            return order[np.arange(size) % len(order)]
        ext = np.array([order[0], order[-1]])
        return ext[np.arange(size) % 2]

    def on_draw(self, gen, method, args, kwargs):
        self.draws += 1
        if method != "choice":
            return PASS
        a = args[0] if args else kwargs.get("a")
        size = args[1] if len(args) > 1 else kwargs.get("size")
        p = kwargs.get("p", args[3] if len(args) > 3 else None)
        if p is None or isinstance(a, (int, np.integer)) and False:
            return PASS
        a = np.arange(a) if isinstance(a, (int, np.integer)) else np.asarray(a)
        n = int(np.prod(size)) if size is not None else 1
        idx = self.decide(p, n)
        self.offers.append({"p": np.array(p, dtype=float), "size": n, "idx": np.array(idx), "via": "numpy"})
        out = a[idx]
        if size is None:
            return out[0]
        return out.reshape(size)


def patch_jax_choice(get_hub):
    """Route jax.random.choice(key, a, shape, p=...) through the current ScriptHub (if any)."""
    import jax
    import jax.numpy as jnp

    if getattr(jax.random.choice, "_verif_wrapped", False):
        return
    real = jax.random.choice

    def choice(key, a, shape=(), replace=True, p=None, axis=0, mode=None):
        hub = get_hub()
        if hub is None or p is None or not isinstance(hub, ScriptHub):
            kw = {} if mode is None else {"mode": mode}
            return real(key, a, shape, replace, p, axis, **kw)
        hub.draws += 1
        arr = np.arange(a) if isinstance(a, (int, np.integer)) else np.asarray(a)
        n = int(np.prod(shape)) if shape != () else 1
        idx = hub.decide(np.asarray(p), n)
        hub.offers.append({"p": np.array(p, dtype=float), "size": n, "idx": np.array(idx), "via": "jax"})
        return jnp.asarray(arr[idx]).reshape(shape)

    choice._verif_wrapped = True
    jax.random.choice = choice
