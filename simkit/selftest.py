"""Self-tests of the machinery itself.

determinism : every check, N run indices, each executed in >=3 fresh interpreters that differ in
              PYTHONHASHSEED and in how the indices are split over processes; the per-run trace
              digests must agree pairwise.
sensitivity : every mutant under /verif/mutants/<ID>/*.diff is applied to a scratch copy of the
              pennylane package (outside /repo and /verif), the quick tier is run against it and
              must exit 1 with a replay that reproduces; the scratch copy is then deleted.
"""
from __future__ import annotations

import argparse
import glob
import json
import os
import shutil
import subprocess
import sys
import tempfile
import time

VERIF = os.path.dirname(os.path.dirname(os.path.abspath(__file__)))
PY = sys.executable


def print_digests(cid, tier, seed, start, n, workers) -> int:
    """Child mode: print 'idx digest nviol' for runs [start, start+n)."""
    from simkit import runner
    from simkit.core import Streams, derive_seed

    mod = runner.load_check(cid)
    mod.setup()
    for idx in range(start, start + n):
        case = mod.gen_case(Streams(derive_seed(seed, cid, idx)), tier)
        res = mod.run_case(case)
        print(f"D {idx} {res['digest']} {len(res['violations'])} {int(bool(res.get('nontrivial')))}",
              flush=True)
    return 0


def _digests(cid, tier, seed, start, n, hashseed, procs):
    env = dict(os.environ, PYTHONHASHSEED=str(hashseed))
    per = (n + procs - 1) // procs
    ps = []
    for k in range(procs):
        s = start + k * per
        m = min(per, start + n - s)
        if m <= 0:
            continue
        ps.append(subprocess.Popen(
            [PY, os.path.join(VERIF, "run.py"), cid, "--digests", "--tier", tier, "--seed", str(seed),
             "--start", str(s), "--runs", str(m)], env=env, stdout=subprocess.PIPE,
            stderr=subprocess.PIPE, text=True))
    out = {}
    for p in ps:
        so, se = p.communicate(timeout=3600)
        if p.returncode != 0:
            raise RuntimeError(f"digest child failed rc={p.returncode}: {se[-2000:]}")
        for line in so.splitlines():
            if line.startswith("D "):
                _, idx, dg, nv, nt = line.split()
                out[int(idx)] = (dg, nv)
    return out


def determinism(checks, n, tier="quick", seed=0) -> int:
    bad = 0
    report = {}
    for cid in checks:
        t0 = time.time()
        a = _digests(cid, tier, seed, 0, n, 0, 4)
        b = _digests(cid, tier, seed, 0, n, 12345, 16)
        c = _digests(cid, tier, seed, 0, n, 0, 7)
        diffs = [i for i in range(n) if not (a.get(i) == b.get(i) == c.get(i)) or i not in a]
        report[cid] = {"runs": n, "configs": ["hashseed=0/4procs", "hashseed=12345/16procs", "hashseed=0/7procs"],
                       "mismatches": len(diffs), "first": diffs[:5], "wall_s": round(time.time() - t0, 1)}
        print(f"[determinism] {cid}: {n} runs x 3 fresh-interpreter configurations, mismatches={len(diffs)} "
              f"{diffs[:5]} ({time.time() - t0:.0f}s)", flush=True)
        bad += len(diffs)
    os.makedirs(os.path.join(VERIF, "evidence"), exist_ok=True)
    path = os.path.join(VERIF, "selftest_determinism.json")
    old = {}
    if os.path.exists(path):
        old = json.load(open(path))
    old.update(report)
    json.dump(old, open(path, "w"), indent=1, sort_keys=True)
    return 1 if bad else 0


def try_diff(cid, diff, runs=None, tier="quick", keep=False, extra_args=()):
    """Apply one unified diff to a scratch copy of the package (outside /repo and /verif), run the check
    against it through PYTHONPATH, delete the copy.  Returns a result dict."""
    scratch = tempfile.mkdtemp(prefix=f"verif-mut-{cid}-", dir="/tmp")
    try:
        t0 = time.time()
        shutil.copytree("/repo/pennylane", os.path.join(scratch, "pennylane"),
                        ignore=shutil.ignore_patterns("__pycache__"))
        p = subprocess.run(["patch", "-p1", "-s", "-d", scratch, "-i", diff], capture_output=True, text=True)
        if p.returncode != 0:
            return {"caught": False, "error": "patch-failed", "detail": (p.stdout + p.stderr)[-400:]}
        env = dict(os.environ, PYTHONPATH=scratch, VERIF_NO_EVIDENCE="1",
                   VERIF_REPLAY_DIR=os.path.join(scratch, "replays"))
        cmd = [PY, os.path.join(VERIF, "run.py"), cid, "--tier", tier] + list(extra_args)
        if runs:
            cmd += ["--runs", str(runs)]
        r = subprocess.run(cmd, env=env, capture_output=True, text=True, timeout=3600)
        caught = r.returncode == 1 and "VIOLATION property=" in r.stdout
        klass = [l for l in r.stdout.splitlines() if l.startswith("violation class=")][:1]
        return {"caught": caught, "replay_reproduces": "replay_reproduces=True" in r.stdout,
                "rc": r.returncode, "wall_s": round(time.time() - t0, 1),
                "first": klass[0][:400] if klass else None,
                "stderr_tail": None if caught else r.stderr[-400:]}
    finally:
        if not keep:
            shutil.rmtree(scratch, ignore_errors=True)


def sensitivity(checks, only=None, keep=False, runs=None) -> int:
    """Apply each mutant to a scratch copy of the package and expect the quick tier to fail."""
    results = {}
    missed = 0
    for cid in checks:
        for diff in sorted(glob.glob(os.path.join(VERIF, "mutants", cid, "*.diff"))):
            name = os.path.basename(diff)[:-5]
            if only and only not in name:
                continue
            res = try_diff(cid, diff, runs=runs, keep=keep)
            results[f"{cid}/{name}"] = res
            print(f"[sensitivity] {cid}/{name}: caught={res['caught']} replay={res.get('replay_reproduces')} "
                  f"rc={res.get('rc')} ({res.get('wall_s')}s) {(res.get('first') or res.get('stderr_tail') or res.get('detail') or '')[:200]}",
                  flush=True)
            if not res["caught"]:
                missed += 1
    path = os.path.join(VERIF, "selftest_sensitivity.json")
    old = {}
    if os.path.exists(path):
        old = json.load(open(path))
    old.update(results)
    json.dump(old, open(path, "w"), indent=1, sort_keys=True)
    return 1 if missed else 0


def main(argv) -> int:
    ap = argparse.ArgumentParser()
    ap.add_argument("what", choices=["determinism", "sensitivity"])
    ap.add_argument("--checks")
    ap.add_argument("--n", type=int, default=200)
    ap.add_argument("--only")
    ap.add_argument("--runs", type=int)
    ap.add_argument("--tier", default="quick")
    a = ap.parse_args(argv)
    man = json.load(open(os.path.join(VERIF, "MANIFEST.json")))
    checks = a.checks.split(",") if a.checks else [c["property_id"] for c in man["checks"]]
    if a.what == "determinism":
        return determinism(checks, a.n, a.tier)
    return sensitivity(checks, a.only, runs=a.runs)
