"""Seed fan-out, aggregation, known-finding classification, shrinking, replay files, evidence.

The parent process never imports PennyLane (or JAX): it forks workers that do, so a fork never
happens in a process that already owns BLAS/XLA threads.
"""
from __future__ import annotations

import faulthandler
import importlib
import json
import os
import signal
import subprocess
import sys
import time
import traceback
from concurrent.futures import FIRST_COMPLETED, ProcessPoolExecutor, wait
from multiprocessing import get_context

from .core import HarnessError, Streams, canonical, derive_seed

VERIF = os.path.dirname(os.path.dirname(os.path.abspath(__file__)))
KNOWN_FILE = os.path.join(VERIF, "known_findings.json")
PY = sys.executable


class RunTimeout(BaseException):
    """Per-run wall cap exceeded.  Deliberately NOT an Exception: checks wrap calls into the code under
    test in `except Exception` and must never mistake a slow machine for a misbehaving library."""


def load_check(cid: str):
    return importlib.import_module(f"checks.{cid.lower()}")


# --------------------------------------------------------------------------------------------
# known findings
# --------------------------------------------------------------------------------------------


def load_known(cid: str):
    if not os.path.exists(KNOWN_FILE):
        return []
    with open(KNOWN_FILE) as f:
        data = json.load(f)
    return [k for k in data.get("findings", []) if k["property"] == cid and k["status"] == "open"]


def match_known(known, violation):
    """A violation is 'known' iff every key of an entry's `match` equals the violation's sig."""
    sig = dict(violation.get("sig", {}))
    sig["klass"] = violation["klass"]
    for k in known:
        if all((sig.get(a) in b) if isinstance(b, list) else (sig.get(a) == b)
               for a, b in k["match"].items()):
            return k["id"]
    return None


# --------------------------------------------------------------------------------------------
# worker side
# --------------------------------------------------------------------------------------------

_W = {}


def _alarm(signum, frame):
    raise RunTimeout("per-run wall cap exceeded")


def _worker_init(cid):
    faulthandler.enable()
    sys.path.insert(0, VERIF) if VERIF not in sys.path else None
    mod = load_check(cid)
    mod.setup()
    _W["mod"] = mod
    _W["known"] = load_known(cid)
    signal.signal(signal.SIGALRM, _alarm)


def _one_run(mod, cid, root_seed, tier, idx, run_cap_s):
    streams = Streams(derive_seed(root_seed, cid, idx))
    signal.setitimer(signal.ITIMER_REAL, run_cap_s)
    try:
        case = mod.gen_case(streams, tier)
        res = mod.run_case(case)
    finally:
        signal.setitimer(signal.ITIMER_REAL, 0)
    return case, res


def _worker_batch(cid, root_seed, tier, indices, run_cap_s, want_samples):
    mod = _W["mod"]
    known = _W["known"]
    out = {
        "n": 0,
        "counters": {},
        "digests": set(),
        "samples": [],
        "violations": [],
        "known": {},
        "errors": [],
        "sim_time": 0.0,
    }
    cnt = out["counters"]
    if _W.get("tainted"):
        # a run of this worker was abandoned at the wall cap, i.e. interrupted at an arbitrary point
        # (possibly in the middle of an import): nothing this process does afterwards is trusted
        out["skipped_tainted_worker"] = len(indices)
        return out
    _t0 = time.monotonic()
    _c0 = time.process_time()
    for idx in indices:
        try:
            case, res = _one_run(mod, cid, root_seed, tier, idx, run_cap_s)
        except RunTimeout:
            # counted, not a violation and not (by itself) an error: see the threshold in run_check
            out["timeouts"] = out.get("timeouts", 0) + 1
            _W["tainted"] = True
            break
        except BaseException as e:  # noqa: BLE001
            if isinstance(e, KeyboardInterrupt):
                raise
            out["errors"].append(
                {"idx": idx, "error": repr(e), "tb": traceback.format_exc()[-3000:]}
            )
            if len(out["errors"]) >= 3:
                break
            continue
        out["n"] += 1
        for k, v in res.get("counters", {}).items():
            cnt[k] = cnt.get(k, 0) + v
        out["sim_time"] += res.get("sim_time", 0.0)
        if res.get("nontrivial"):
            # digests are arbitrary strings: hash them so that any check-chosen label works
            out["digests"].add(derive_seed(res["digest"]) & 0xFFFFFFFFFFFF)
        if want_samples and len(out["samples"]) < want_samples and res.get("nontrivial"):
            out["samples"].append({"run": idx, "case": res.get("case", case),
                                   "observed": res.get("summary")})
        for v in res.get("violations", []):
            kid = match_known(known, v)
            if kid is not None:
                e = out["known"].setdefault(kid, {"count": 0, "example": None})
                e["count"] += 1
                if e["example"] is None:
                    e["example"] = {"run": idx, "detail": v.get("detail")}
            elif len(out["violations"]) < 3:
                out["violations"].append({"run": idx, "case": res.get("case", case), "violation": v})
    out["pid"] = os.getpid()
    out["busy_s"] = time.monotonic() - _t0
    out["cpu_s"] = time.process_time() - _c0
    return out


def _violates(mod, case, klass, sig_keys=None, run_cap_s=20.0):
    signal.setitimer(signal.ITIMER_REAL, run_cap_s)
    try:
        res = mod.run_case(case)
    except RunTimeout:
        return None
    except HarnessError:
        return None
    except Exception:  # noqa: BLE001 - a shrunk case may be malformed; just reject it
        return None
    finally:
        signal.setitimer(signal.ITIMER_REAL, 0)
    known = _W.get("known", [])
    for v in res.get("violations", []):
        if v["klass"] == klass and match_known(known, v) is None:
            return res, v
    return None


def _violates_isolated(mod, case, klass, run_cap_s=120.0):
    """`_violates` in a forked child: a defect that damages process-global state (a registry, a lock, a C
    library) would otherwise make every later candidate of the same shrink session "fail" too, and the
    search would descend to a case that does not fail at all in a fresh interpreter."""
    r, w = os.pipe()
    pid = os.fork()
    if pid == 0:
        code = 0
        try:
            os.close(r)
            out = _violates(mod, case, klass, run_cap_s=run_cap_s)
            payload = None if out is None else {"case": out[0].get("case", case), "violation": out[1]}
            with os.fdopen(w, "w") as f:
                json.dump(payload, f, default=str)
        except BaseException:  # noqa: BLE001
            code = 3
        finally:
            os._exit(code)
    os.close(w)
    with os.fdopen(r) as f:
        data = f.read()
    os.waitpid(pid, 0)
    if not data:
        return None
    payload = json.loads(data)
    if payload is None:
        return None
    return {"case": payload["case"]}, payload["violation"]


def _worker_shrink(cid, case, violation, budget_s):
    """Greedy descent over the check's shrink candidates, keeping the same violation class."""
    mod = _W["mod"]
    klass = violation["klass"]
    t0 = time.monotonic()
    tries = accepted = 0
    cur, cur_v = case, violation
    first = _violates_isolated(mod, cur, klass)
    if first is None:
        return {"case": case, "violation": violation, "tries": 0, "accepted": 0,
                "reproduced": False}
    cur = first[0].get("case", cur)
    cur_v = first[1]
    cand_fn = getattr(mod, "shrink_candidates", None)
    progress = cand_fn is not None
    while progress and time.monotonic() - t0 < budget_s:
        progress = False
        for cand in cand_fn(cur):
            if time.monotonic() - t0 > budget_s:
                break
            tries += 1
            r = _violates_isolated(mod, cand, klass)
            if r is not None:
                cur = r[0].get("case", cand)
                cur_v = r[1]
                accepted += 1
                progress = True
                break
    return {"case": cur, "violation": cur_v, "tries": tries, "accepted": accepted,
            "reproduced": True}


def _worker_conformance(cid, root_seed, tier):
    mod = _W["mod"]
    fn = getattr(mod, "conformance", None)
    if fn is None:
        return None
    return fn(root_seed, tier)


def _worker_probe(cid, case):
    mod = _W["mod"]
    signal.setitimer(signal.ITIMER_REAL, 60)
    try:
        res = mod.run_case(case)
    finally:
        signal.setitimer(signal.ITIMER_REAL, 0)
    return [{"klass": v["klass"], "sig": v.get("sig", {}), "detail": v.get("detail")}
            for v in res.get("violations", [])]


# --------------------------------------------------------------------------------------------
# parent side
# --------------------------------------------------------------------------------------------


def case_size(case) -> int:
    return len(canonical(case))


def write_replay(cid, seed, run_idx, shrunk, original_case):
    d = os.environ.get("VERIF_REPLAY_DIR") or os.path.join(VERIF, "replays")
    os.makedirs(d, exist_ok=True)
    body = {
        "property": cid,
        "seed": seed,
        "run_index": run_idx,
        "violation_class": shrunk["violation"]["klass"],
        "violation": shrunk["violation"],
        "case": shrunk["case"],
        "minimised": {"tries": shrunk["tries"], "accepted": shrunk["accepted"],
                      "size_before": case_size(original_case),
                      "size_after": case_size(shrunk["case"])},
        "original_case": original_case,
    }
    dg = format(derive_seed(canonical(shrunk["case"])), "x")[:10]
    path = os.path.join(d, f"{cid}-{seed}-{run_idx}-{dg}.json")
    with open(path, "w") as f:
        json.dump(body, f, indent=1, sort_keys=True, default=str)
    return path


def replay_in_fresh_interpreter(cid, path) -> bool:
    env = dict(os.environ, PYTHONHASHSEED="0")
    p = subprocess.run([PY, os.path.join(VERIF, "run.py"), cid, "--replay", path],
                       capture_output=True, text=True, env=env, timeout=600)
    return p.returncode == 1 and "VIOLATION" in p.stdout


def run_replay(cid, path) -> int:
    with open(path) as f:
        body = json.load(f)
    mod = load_check(cid)
    mod.setup()
    _W["mod"] = mod
    _W["known"] = []
    res = mod.run_case(body["case"])
    klass = body["violation_class"]
    for v in res.get("violations", []):
        if v["klass"] == klass:
            print(f"replayed: class={klass} detail={json.dumps(v.get('detail'), default=str)[:600]}")
            print(f"VIOLATION property={cid} replay={path}")
            return 1
    print(f"replay of {path}: violation class {klass!r} did NOT reproduce "
          f"(observed: {[v['klass'] for v in res.get('violations', [])]})")
    return 0


def run_check(cid: str, tier: str, seed: int, runs=None, wall=None, workers=None,
              quiet=False) -> int:
    t0 = time.monotonic()
    mod = load_check(cid)  # cheap: check modules import PennyLane lazily in setup()
    cfg = dict(mod.TIERS[tier])
    if runs is not None:
        cfg["runs"] = runs
    if wall is not None:
        cfg["wall"] = wall
    n_runs, wall_s = cfg["runs"], cfg["wall"]
    chunk = cfg.get("chunk", 50)
    run_cap_s = cfg.get("run_cap_s", 60.0)
    workers = workers or int(os.environ.get("VERIF_WORKERS", min(16, os.cpu_count() or 1)))
    known = load_known(cid)

    agg = {"n": 0, "counters": {}, "digests": set(), "samples": [], "violations": [],
           "known": {}, "errors": [], "sim_time": 0.0}
    # Import (only import: no computation, hence no BLAS/XLA threads) once, then fork.
    import warnings

    warnings.filterwarnings("ignore", message=".*os.fork\\(\\) was called.*")
    if hasattr(mod, "preimport") and not os.environ.get("VERIF_NO_PREIMPORT"):
        mod.preimport()
        n_threads = len(os.listdir("/proc/self/task"))
        if n_threads != 1:
            raise HarnessError(f"preimport started threads ({n_threads}); refusing to fork")
        import gc

        gc.collect()
        gc.freeze()  # imported modules never need collecting again: cheap gc in workers, less COW
    if os.environ.get("VERIF_DEBUG"):
        print(f"[debug] preimport done at {time.monotonic() - t0:.1f}s", file=sys.stderr)
    pool = ProcessPoolExecutor(max_workers=workers, mp_context=get_context("fork"),
                               initializer=_worker_init, initargs=(cid,))
    faulthandler.dump_traceback_later(wall_s + 900, exit=True)
    next_idx = 0
    pending = set()
    stop = False
    # the exploration budget starts once the framework is up (imports on a loaded machine can take
    # half a minute); a first wave of batches is always dispatched, so slowness alone can never turn
    # into "nothing explored"
    hard_deadline = time.monotonic() + wall_s
    first_wave = workers
    try:
        while (next_idx < n_runs and not stop) or pending:
            while (len(pending) < workers * 2 and next_idx < n_runs and not stop
                   and (time.monotonic() < hard_deadline or first_wave > 0)):
                first_wave -= 1
                idxs = list(range(next_idx, min(n_runs, next_idx + chunk)))
                next_idx = idxs[-1] + 1
                pending.add(pool.submit(_worker_batch, cid, seed, tier, idxs, run_cap_s,
                                        2 if len(agg["samples"]) < 3 else 0))
            if not pending:
                break
            done, pending = wait(pending, timeout=5, return_when=FIRST_COMPLETED)
            for fut in done:
                out = fut.result()
                if os.environ.get("VERIF_DEBUG"):
                    print(f"[debug] t={time.monotonic() - t0:.1f} batch n={out['n']} busy={out.get('busy_s', 0):.1f} pid={out.get('pid')}", file=sys.stderr)
                agg["n"] += out["n"]
                agg["timeouts"] = agg.get("timeouts", 0) + out.get("timeouts", 0)
                agg["sim_time"] += out["sim_time"]
                agg["busy_s"] = agg.get("busy_s", 0.0) + out.get("busy_s", 0.0)
                agg["cpu_s"] = agg.get("cpu_s", 0.0) + out.get("cpu_s", 0.0)
                for k, v in out["counters"].items():
                    agg["counters"][k] = agg["counters"].get(k, 0) + v
                agg["digests"] |= out["digests"]
                for s in out["samples"]:
                    if len(agg["samples"]) < 3:
                        agg["samples"].append(s)
                agg["violations"].extend(out["violations"])
                agg["errors"].extend(out["errors"])
                for kid, e in out["known"].items():
                    a = agg["known"].setdefault(kid, {"count": 0, "example": None})
                    a["count"] += e["count"]
                    a["example"] = a["example"] or e["example"]
            if agg["violations"] or agg["errors"]:
                stop = True
            if time.monotonic() > hard_deadline:
                stop = True
        explored_wall = time.monotonic() - t0
        if os.environ.get("VERIF_DEBUG"):
            print(f"[debug] explore phase done at {explored_wall:.1f}s", file=sys.stderr)

        # ---- known-finding probes: every listed finding is re-demonstrated on each run ------
        probes = {}
        for k in known:
            if "probe_case" in k:
                try:
                    vs = pool.submit(_worker_probe, cid, k["probe_case"]).result(timeout=300)
                    probes[k["id"]] = any(match_known([k], v) == k["id"] for v in vs)
                    extra = [v for v in vs if match_known(known, v) is None]
                    for v in extra:
                        agg["violations"].append({"run": f"probe:{k['id']}",
                                                  "case": k["probe_case"], "violation": v})
                except Exception as e:  # noqa: BLE001
                    agg["errors"].append({"idx": f"probe:{k['id']}", "error": repr(e),
                                          "tb": traceback.format_exc()[-2000:]})

        # ---- conformance against the real implementation (never decides, never alarms) -----
        conf = None
        if not agg["violations"] and not agg["errors"]:
            try:
                conf = pool.submit(_worker_conformance, cid, seed, tier).result(
                    timeout=cfg.get("conformance_timeout", 600))
            except Exception as e:  # noqa: BLE001
                agg["errors"].append({"idx": "conformance", "error": repr(e),
                                      "tb": traceback.format_exc()[-2000:]})
            if conf and conf.get("violations"):
                for v in conf["violations"]:
                    agg["violations"].append(v)

        # ---- shrink + replay files ---------------------------------------------------------
        reported = []
        seen_sigs = set()  # signatures already REPORTED (a follow-on with the same signature as the root
        attempts = 0       # cause must not hide the root cause, so unreproduced ones are not remembered)
        unreproduced = []
        # earliest run first: later violations in a long-lived worker may be follow-on damage
        cands = sorted(agg["violations"], key=lambda it: (not isinstance(it["run"], int), str(it["run"]).zfill(12)))
        for item in cands:
            v = item["violation"]
            key = canonical([v["klass"], v.get("sig", {})])
            if key in seen_sigs or len(reported) >= 3 or attempts >= 12:
                continue
            attempts += 1
            if item.get("no_replay"):
                shrunk = {"case": item["case"], "violation": v, "tries": 0, "accepted": 0,
                          "reproduced": False}
            else:
                # shrink in a FRESH worker forked from the clean parent (search workers may carry
                # state damaged by the very defect they found)
                fresh = ProcessPoolExecutor(max_workers=1, mp_context=get_context("fork"),
                                            initializer=_worker_init, initargs=(cid,))
                try:
                    shrunk = fresh.submit(_worker_shrink, cid, item["case"], v,
                                          cfg.get("shrink_s", 60)).result(timeout=900)
                except Exception as e:  # noqa: BLE001
                    shrunk = {"case": item["case"], "violation": v, "tries": 0, "accepted": 0,
                              "reproduced": False, "shrink_error": repr(e)}
                finally:
                    fresh.shutdown(wait=False, cancel_futures=True)
                if not shrunk.get("reproduced"):
                    unreproduced.append((item, shrunk))
                    continue
            seen_sigs.add(key)
            path = write_replay(cid, seed, item["run"], shrunk, item["case"])
            ok = False
            if not item.get("no_replay"):
                try:
                    ok = replay_in_fresh_interpreter(cid, path)
                except Exception:  # noqa: BLE001
                    ok = False
            reported.append({"path": path, "klass": v["klass"], "replays": ok,
                             "detail": v.get("detail"), "sig": v.get("sig")})
        if not reported and unreproduced:
            # nothing reproduced in isolation: still an alarm (state carried between runs is itself
            # a symptom), reported with the unminimised case
            item, shrunk = unreproduced[0]
            path = write_replay(cid, seed, item["run"], shrunk, item["case"])
            reported.append({"path": path, "klass": item["violation"]["klass"], "replays": False,
                             "detail": item["violation"].get("detail"),
                             "sig": item["violation"].get("sig")})
    finally:
        faulthandler.cancel_dump_traceback_later()
        pool.shutdown(wait=False, cancel_futures=True)

    wall_total = time.monotonic() - t0
    if os.environ.get("VERIF_DEBUG"):
        print(f"[debug] all phases done at {wall_total:.1f}s", file=sys.stderr)
    # ---- evidence ------------------------------------------------------------------------------
    cov = {
        "evaluations": agg["n"],
        "distinct_nontrivial": len(agg["digests"]),
        "rule": mod.RULE,
        "samples": agg["samples"],
        "runs_requested": n_runs,
        "wall_budget_s": wall_s,
        "budget_exhausted": agg["n"] < n_runs and not agg["violations"] and not agg["errors"],
        "seeds": {"root": seed, "derivation": "run i uses sha256(root:property:i); sub-streams "
                  "workload/schedule/fault/rngseam are sha256(run_seed:name)",
                  "first_run": 0, "last_run": max(0, next_idx - 1)},
        "runs_per_hour": int(agg["n"] / max(explored_wall, 1e-9) * 3600),
        "workers": workers,
        "worker_busy_s": round(agg.get("busy_s", 0.0), 1),
        "worker_cpu_s": round(agg.get("cpu_s", 0.0), 1),
        "simulated_time_units": round(agg["sim_time"], 3),
        "simulated_time_note": getattr(mod, "SIM_TIME_NOTE", ""),
        "counters": dict(sorted(agg["counters"].items())),
        "faults_fired": {k[6:]: v for k, v in sorted(agg["counters"].items())
                         if k.startswith("fault:")},
        "not_injected": getattr(mod, "NOT_INJECTED", []),
        "real_components": getattr(mod, "REAL", []),
        "stubbed_components": getattr(mod, "STUBBED", []),
        "traces_validated_against_impl": (conf or {}).get("validated", 0),
        "conformance": conf,
        "known_findings": {k["id"]: {"observed_in_search": agg["known"].get(k["id"], {}).get("count", 0),
                                     "probe_reproduced": probes.get(k["id"]),
                                     "what": k["what"]} for k in known},
        "harness_errors": len(agg["errors"]),
        "runs_abandoned_at_wall_cap": agg.get("timeouts", 0),
    }
    ev = {
        "property_id": cid,
        "tier": tier,
        "seed": seed,
        "level": mod.LEVEL,
        "coverage": cov,
        "assumptions": getattr(mod, "ASSUMPTIONS", []),
        "wall_s": round(wall_total, 2),
        "violations": len(reported),
    }
    if not os.environ.get("VERIF_NO_EVIDENCE"):
        os.makedirs(os.path.join(VERIF, "evidence"), exist_ok=True)
        with open(os.path.join(VERIF, "evidence", f"{cid}.json"), "w") as f:
            json.dump(ev, f, indent=1, default=str)

    # ---- report --------------------------------------------------------------------------------
    if not quiet:
        print(f"[{cid}] tier={tier} seed={seed} runs={agg['n']}/{n_runs} "
              f"distinct_nontrivial={len(agg['digests'])} wall={wall_total:.1f}s "
              f"({cov['runs_per_hour']} runs/h, {workers} workers)")
        interesting = {k: v for k, v in cov["counters"].items()}
        print(f"[{cid}] counters: {json.dumps(interesting)}")
    for k in known:
        obs = agg["known"].get(k["id"], {}).get("count", 0)
        print(f"KNOWN-FINDING: property={cid} {k['id']}: {k['what']} "
              f"(observed {obs}x in this search; probe reproduced: {probes.get(k['id'])})")
    for e in agg["errors"][:3]:
        print(f"HARNESS-ERROR property={cid} run={e['idx']} {e['error']}\n{e['tb']}",
              file=sys.stderr)
    for r in reported:
        print(f"violation class={r['klass']} sig={json.dumps(r['sig'], default=str)} "
              f"detail={json.dumps(r['detail'], default=str)[:800]} "
              f"replay_reproduces={r['replays']}")
        print(f"VIOLATION property={cid} replay={r['path']}")
    if reported:
        return 1
    if agg["errors"]:
        return 2
    if agg.get("timeouts", 0) > max(3, agg["n"] // 50):
        print(f"HARNESS-ERROR property={cid}: {agg['timeouts']} runs hit the per-run wall cap "
              f"({run_cap_s}s): hang or hopelessly overloaded machine", file=sys.stderr)
        return 2
    if agg["n"] == 0:
        print(f"HARNESS-ERROR property={cid}: nothing was explored", file=sys.stderr)
        return 2
    return 0


# --------------------------------------------------------------------------------------------
# generic shrinking helpers for check modules
# --------------------------------------------------------------------------------------------


def shrink_list(lst, min_len=0):
    """Yield shorter variants of a list: halves first, then single deletions."""
    n = len(lst)
    if n <= min_len:
        return
    if n >= 4:
        yield lst[: n // 2]
        yield lst[n // 2:]
    for i in range(n - 1, -1, -1):
        if n - 1 >= min_len:
            yield lst[:i] + lst[i + 1:]
