"""Simulator-owned execution cache: a MutableMapping whose every access is an event.

Policies: "unbounded", "lru" (capacity k), "random" (after every write, each other entry is evicted
with probability p, decided by the fault stream).  A live collision monitor remembers every distinct
non-None value ever stored under a key, so a wrong answer is pinned to the first colliding pair
rather than to a later read.
"""
from __future__ import annotations

from collections import OrderedDict
from collections.abc import MutableMapping

from .baton import yield_point


class SimCache(MutableMapping):
    def __init__(self, policy="unbounded", capacity=None, evict_p=0.0, fault_rng=None, same=None):
        self.policy = policy
        self.capacity = capacity
        self.evict_p = evict_p
        self.fault_rng = fault_rng
        self._d: OrderedDict = OrderedDict()
        self.same = same or (lambda a, b: a == b)
        self.hits = self.misses = self.writes = self.evictions = self.placeholder_evictions = 0
        self.history: dict = {}  # key -> list of distinct non-None values ever stored
        self.collisions: list = []
        self.events: list = []
        self.on_write = None  # optional callback(key, value) for attribution

    # -- mapping protocol ---------------------------------------------------------------------------
    def __contains__(self, key):
        yield_point(("cache", "contains"))
        present = key in self._d
        if present:
            self.hits += 1
            if self.policy == "lru":
                self._d.move_to_end(key)
        else:
            self.misses += 1
        self.events.append(("in", present))
        return present

    def __getitem__(self, key):
        yield_point(("cache", "get"))
        v = self._d[key]  # KeyError propagates exactly like a dict / LRUCache
        if self.policy == "lru":
            self._d.move_to_end(key)
        self.events.append(("get", v is not None))
        return v

    def __setitem__(self, key, value):
        yield_point(("cache", "set"))
        self.writes += 1
        if value is not None:
            seen = self.history.setdefault(key, [])
            if not any(self.same(value, s) for s in seen):
                seen.append(value)
                if len(seen) > 1:
                    self.collisions.append((key, len(seen)))
            if self.on_write is not None:
                self.on_write(key, value)
        self._d[key] = value
        self._d.move_to_end(key)
        self.events.append(("set", value is not None))
        if self.policy == "lru" and self.capacity is not None:
            while len(self._d) > self.capacity:
                k, v = self._d.popitem(last=False)
                self._evicted(v)
        elif self.policy == "random" and self.fault_rng is not None:
            for k in list(self._d):
                if k != key and self.fault_rng.random() < self.evict_p:
                    self._evicted(self._d.pop(k))

    def _evicted(self, v):
        self.evictions += 1
        if v is None:
            self.placeholder_evictions += 1

    def __delitem__(self, key):
        del self._d[key]

    def __iter__(self):
        return iter(self._d)

    def __len__(self):
        return len(self._d)
