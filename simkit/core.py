"""Deterministic simulation kernel: seeded sub-streams, discrete-event core, decision trace.

Everything here is pure Python and free of wall-clock reads.  One `Sim` = one simulated run.
"""
from __future__ import annotations

import hashlib
import heapq
import json
import random


class HarnessError(Exception):
    """A bug or limitation of the verification machinery (never reported as a violation)."""


class SimDeadlock(HarnessError):
    """The simulated system waits for something no pending event can deliver."""


def derive_seed(*parts) -> int:
    """Stable 63-bit integer from arbitrary printable parts (independent of PYTHONHASHSEED)."""
    h = hashlib.sha256(":".join(str(p) for p in parts).encode()).digest()
    return int.from_bytes(h[:8], "big") >> 1


class Streams:
    """Named PRNG sub-streams of one root seed.

    Drawing from one stream never perturbs another, so shrinking the workload does not change
    the schedule or the fault plan and vice versa.
    """

    def __init__(self, seed: int):
        self.seed = int(seed)
        self._streams: dict[str, random.Random] = {}

    def __getitem__(self, name: str) -> random.Random:
        r = self._streams.get(name)
        if r is None:
            r = self._streams[name] = random.Random(derive_seed(self.seed, name))
        return r


class Trace:
    """Append-only record of decisions and property-relevant observations.

    Entries must be JSON-able and must never contain object ids, process-dependent hashes or
    wall-clock values.  Logging never draws from a PRNG.
    """

    __slots__ = ("events", "_h", "keep")

    def __init__(self, keep: bool = True):
        self.events: list = []
        self._h = hashlib.sha256()
        self.keep = keep

    def log(self, *entry):
        self._h.update(json.dumps(entry, sort_keys=True, default=str).encode())
        self._h.update(b"\n")
        if self.keep:
            self.events.append(entry)

    def digest(self) -> str:
        return self._h.hexdigest()[:24]


class Sim:
    """Discrete-event core with a virtual clock.

    `after(dt, fn)` schedules `fn` at `now + dt`; events are totally ordered by `(time, seq)`.
    `run_until(pred)` pops events until `pred()` holds; an empty heap with `pred()` false is a
    simulated deadlock (reported as a harness error, never silently ignored).
    """

    def __init__(self, trace: Trace | None = None, step_cap: int = 200_000):
        self.now = 0.0
        self.seq = 0
        self.heap: list = []
        self.trace = trace if trace is not None else Trace()
        self.steps = 0
        self.step_cap = step_cap

    def after(self, dt: float, fn, label=None):
        self.seq += 1
        heapq.heappush(self.heap, (self.now + dt, self.seq, fn, label))
        return self.seq

    def step(self) -> bool:
        if not self.heap:
            return False
        t, seq, fn, label = heapq.heappop(self.heap)
        self.now = t
        self.steps += 1
        if self.steps > self.step_cap:
            raise HarnessError(f"step cap {self.step_cap} exceeded")
        fn()
        return True

    def run_until(self, pred, what: str = "condition"):
        while not pred():
            if not self.step():
                raise SimDeadlock(f"no pending event can satisfy: {what}")

    def drain(self):
        while self.step():
            pass


def canonical(obj) -> str:
    return json.dumps(obj, sort_keys=True, default=str)
